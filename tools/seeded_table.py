"""Write seeded/RESULTS.md from seeded/*/meta.json and seeded/results.json."""
import glob, json, os
ROOT = os.path.dirname(os.path.dirname(os.path.abspath(__file__)))
res = json.load(open(os.path.join(ROOT, "seeded", "results.json")))
rows = ["| id | change | needs | first run | now | caught by |", "|---|---|---|---|---|---|"]
for d in sorted(glob.glob(os.path.join(ROOT, "seeded", "C*"))):
    sid = os.path.basename(d)
    m = json.load(open(os.path.join(d, "meta.json")))
    r = res.get(sid, {})
    cb = (r.get("caught_by") or "").replace("violation in ", "").replace("violation on saved input ", "saved input ").replace("|", "/")
    rows.append("| %s | %s | %s | %s | %s | %s |" % (sid, (m.get("summary") or "")[:220].replace("|", "/").replace("\n", " "),
                (m.get("needs") or "")[:200].replace("|", "/").replace("\n", " "), r.get("first", "?"), r.get("latest", "?"), cb[:120]))
n = len(rows) - 2
first_missed = sum(1 for k, v in res.items() if v.get("first") != "CAUGHT")
now_missed = sum(1 for k, v in res.items() if v.get("latest") != "CAUGHT")
open(os.path.join(ROOT, "seeded", "RESULTS.md"), "w").write(
    "# Seeded changes written by independent sub-agents\n\n%d changes; not caught at first run: %d; not caught now: %d.\n\n" % (n, first_missed, now_missed)
    + "\n".join(rows) + "\n")
print(n, first_missed, now_missed)
