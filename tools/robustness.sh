#!/bin/sh
# every hand-written mutant and every seeded change at several seeds; prints the ones a quick run misses at some seed
cd "$(dirname "$0")/.." || exit 2; mkdir -p .work
for s in ${SEEDS:-2 3 4}; do
  VERIF_SEED=$s /venv/bin/python tools/sensitivity.py 2>&1 | grep -E "MISSED|HARNESS|PATTERN" | sed "s/^/seed=$s mutant /" | cut -c1-200
  VERIF_SEED=$s VERIF_NO_RECORD=1 /venv/bin/python tools/seeded.py run 2>&1 | grep -E "MISSED|HARNESS" | sed "s/^/seed=$s seeded /" | cut -c1-200
done
echo ROBUSTNESS-DONE
