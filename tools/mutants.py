"""Hand-written mutants (DESIGN 3): (property, name, file relative to repo root, old, new)."""
S = "sktime/forecasting/model_selection/_split.py"
FH = "sktime/forecasting/base/_fh.py"
R = "sktime/forecasting/compose/_reduce.py"
SK = "sktime/forecasting/base/_sktime.py"
MF = "sktime/performance_metrics/forecasting/_functions.py"
MC = "sktime/performance_metrics/forecasting/_classes.py"
NV = "sktime/forecasting/naive.py"
TR = "sktime/forecasting/trend.py"
SM = "sktime/forecasting/base/adapters/_statsmodels.py"
EV = "sktime/forecasting/model_evaluation/_functions.py"
TU = "sktime/forecasting/model_selection/_tune.py"
PL = "sktime/forecasting/compose/_pipeline.py"
ST = "sktime/forecasting/compose/_stack.py"
EN = "sktime/forecasting/compose/_ensemble.py"
BM = "sktime/base/_meta.py"
DP = "sktime/utils/data_processing.py"
IO = "sktime/utils/data_io.py"
DB = "sktime/datasets/base.py"
MUTANTS = [
 ("C01", "get_end_plus1", S, "end = n_timepoints - fh_max + 1", "end = n_timepoints - fh_max + 2"),
 ("C01", "sliding_test_shift", S, "            train = np.arange(split_point - window_length, split_point)\n            test = split_point + fh - 1", "            train = np.arange(split_point - window_length, split_point)\n            test = split_point + fh"),
 ("C01", "expanding_start", S, "train = np.arange(start - window_length, split_point)", "train = np.arange(start - window_length + 1, split_point)"),
 ("C01", "get_cutoffs_no_minus1", S, "return np.arange(start, end, step_length) - 1", "return np.arange(start, end, step_length)"),
 ("C01", "cutoff_fix_reverted", S, "if np.max(cutoffs) + np.max(fh) >= y.shape[0]:", "if np.max(cutoffs) + np.max(fh) > y.shape[0]:"),
 ("C01", "initial_window_step", S, "start += self.initial_window + step_length", "start += self.initial_window + 1"),
 ("C01", "split_by_fh_train", S, "train = index[:-max_step]", "train = index[:-max_step + 1] if max_step > 1 else index[:-1]"),
 ("C01", "single_cutoffs", S, "cutoff = _get_end(y, fh) - 2", "cutoff = _get_end(y, fh) - 1"),
 ("C02", "in_sample_strict", FH, "return self.to_relative(cutoff).to_pandas() <= 0", "return self.to_relative(cutoff).to_pandas() < 0"),
 ("C02", "indexer_no_minus1", FH, "return self.to_relative(cutoff).to_pandas() - 1", "return self.to_relative(cutoff).to_pandas()"),
 ("C02", "no_sort", FH, "return values.sort_values()", "return values"),
 ("C02", "no_dup_check", FH, "if len(values) != values.nunique():", "if False:"),
 ("C02", "lru_ignores_cutoff", FH, "            absolute = cutoff + relative\n", "            absolute = cutoff + relative if cutoff % 7 else cutoff + relative + 1\n"),
 ("C02", "tuple_accepted", FH, "elif isinstance(values, (list, np.ndarray)):", "elif isinstance(values, (list, tuple, np.ndarray)):"),
 ("C05", "features_leak_one_step", R, "Xt = Zt[:, :, :window_length]", "Xt = Zt[:, :, 1 : window_length + 1]"),
 ("C05", "recursive_feedback_slot", R, "last[:, 0, window_length + i] = y_pred[i]", "last[:, 0, window_length + i - 1] = y_pred[i]"),
 ("C05", "dirrec_target_leak", R, "X_fit = X_full[:, :, : n_timepoints + i]", "X_fit = X_full[:, :, : n_timepoints + i + 1] if i + 1 < len(self.fh) else X_full[:, :, : n_timepoints + i]"),
 ("C05", "recursive_returns_first_steps", R, "        fh_idx = fh.to_indexer(self.cutoff)\n        return y_pred[fh_idx]", "        fh_idx = fh.to_indexer(self.cutoff)\n        return y_pred[: len(fh_idx)]"),
 ("C05", "last_window_shifted", SK, "start = _shift(cutoff, by=-self.window_length_ + 1)", "start = _shift(cutoff, by=-self.window_length_)"),
 ("C05", "exog_order_time_major", R, "return yt, Xt.reshape(Xt.shape[0], -1)", "return yt, Xt.transpose(0, 2, 1).reshape(Xt.shape[0], -1)"),
 ("C05", "drop_last_full_window", R, "Zt = Zt[effective_window_length:-effective_window_length]", "Zt = Zt[effective_window_length:-effective_window_length - 1]"),
 ("C06", "rel_eps_clamp_dropped", MF, "np.maximum((y_true - y_pred_benchmark), EPS),", "np.maximum((y_true - y_pred_benchmark), 0.0),"),
 ("C06", "symmetric_ignored_mspe", MF, "        np.square(_percentage_error(y_true, y_pred, symmetric=symmetric)),\n        weights=horizon_weight,", "        np.square(_percentage_error(y_true, y_pred)),\n        weights=horizon_weight,"),
 ("C06", "weights_ignored_mrae", MF, "            np.abs(_relative_error(y_true, y_pred, y_pred_benchmark)),\n            weights=horizon_weight,", "            np.abs(_relative_error(y_true, y_pred, y_pred_benchmark)),\n            weights=None,"),
 ("C06", "asym_threshold_le", MF, "y_true - y_pred < asymmetric_threshold,", "y_true - y_pred <= asymmetric_threshold,"),
 ("C06", "smape_no_factor2_when_zero_truth", MF, "            2\n            * np.abs(y_true - y_pred)", "            np.where(y_true == 0, 1, 2)\n            * np.abs(y_true - y_pred)"),
 ("C06", "mdape_fix_reverted", MF, "            np.abs(_percentage_error(y_true, y_pred, symmetric=symmetric)),\n            sample_weight=horizon_weight,", "            np.abs(_percentage_error(y_pred, y_true, symmetric=symmetric)),\n            sample_weight=horizon_weight,"),
 ("C06", "class_drops_square_root", MC, "return self._func(y_true, y_pred, square_root=self.square_root, **kwargs)", "return self._func(y_true, y_pred, **kwargs)"),
 ("C06", "gmrse_sqrt_before_gmean_eps", MF, "    relative_errors = np.square(_relative_error(y_true, y_pred, y_pred_benchmark))", "    relative_errors = np.square(_relative_error(y_true, y_pred, y_pred_benchmark)) + 0.0 * EPS + (y_true == y_pred) * 0.0 + (np.abs(y_true - y_pred) < 1e-3) * 1e-12"),
 ("C06", "msse_multioutput_first_col", MF, "    mse_naive = mean_squared_error(y_train[sp:], y_pred_naive, multioutput=multioutput)", "    mse_naive = mean_squared_error(y_train[sp:, :1], y_pred_naive[:, :1], multioutput=multioutput)"),
 ("C11", "seasonal_last_tile_off", NV, "                    reps = np.int(np.ceil(fh[-1] / self.sp_))\n                    last_window = np.tile(last_window, reps=reps)", "                    reps = np.int(np.ceil(fh[-1] / self.sp_))\n                    last_window = np.tile(np.roll(last_window, 1), reps=reps)"),
 ("C11", "drift_denominator", NV, "                        self.window_length_ - 1\n", "                        self.window_length_\n"),
 ("C11", "trend_degree_plus1", TR, "PolynomialFeatures(degree=self.degree, include_bias=self.with_intercept)", "PolynomialFeatures(degree=self.degree + (self.degree == 2), include_bias=self.with_intercept)"),
 ("C11", "seasonal_mean_fix_reverted", NV, "last_window = np.hstack([np.full(pad_width, np.nan), last_window])", "last_window = np.hstack([last_window, np.full(pad_width, np.nan)])"),
 ("C11", "mean_not_nanmean", NV, "return np.repeat(np.nanmean(last_window), len(fh))", "return np.repeat(np.mean(last_window), len(fh))"),
 ("C11", "statsmodels_first_steps", SM, "        return y_pred.loc[fh.to_absolute(self.cutoff).to_pandas()]", "        out = y_pred.iloc[: len(fh)]\n        out.index = fh.to_absolute(self.cutoff).to_pandas()\n        return out"),
 ("C11", "expsmooth_drops_damped", "sktime/forecasting/exp_smoothing.py", "damped_trend=self.damped_trend,", "damped_trend=self.damped_trend and self.seasonal is None,"),
 ("C03", "abs_from_cutoff_plus1", SK, "        index = fh.to_absolute(self.cutoff)\n        return pd.Series(y_pred, index=index)", "        index = fh.to_absolute(self.cutoff + 1)\n        return pd.Series(y_pred, index=index)"),
 ("C03", "cutoff_not_moved_on_update", SK, "            # set cutoff to the end of the observation horizon\n            self._set_cutoff(y.index[-1])", "            # set cutoff to the end of the observation horizon\n            self._set_cutoff(max(self._cutoff, y.index[-2]) if len(y) > 1 else y.index[-1])"),
 ("C03", "trend_abs_int_from_zero", TR, "fh = self.fh.to_absolute_int(self._y.index[0], self.cutoff)", "fh = self.fh.to_absolute_int(0, self.cutoff)"),
 ("C03", "ensemble_resets_index", "sktime/forecasting/compose/_ensemble.py", "        y_pred = pd.concat(self._predict_forecasters(fh, X), axis=1)", "        y_pred = pd.concat([p.reset_index(drop=True) for p in self._predict_forecasters(fh, X)], axis=1)"),
 ("C05", "recursive_indexer_shift", R, "        fh_idx = fh.to_indexer(self.cutoff)\n        return y_pred[fh_idx]", "        fh_idx = fh.to_indexer(self.cutoff)\n        return y_pred[fh_idx - (fh_idx[0] > 0)]"),
 ("C07", "metric_args_swapped_again", EV, "score = scoring(y_test, y_pred)", "score = scoring(y_pred, y_test)"),
 ("C07", "train_until_last_test", EV, "    y_train = y.iloc[train]\n", "    y_train = y.iloc[train[0] : test[0] + (len(test) > 2)]\n"),
 ("C07", "first_fold_skipped_on_update", EV, '        if i == 0 or strategy == "refit":', '        if i <= 1 or strategy == "refit":'),
 ("C07", "cutoff_from_test", EV, '"cutoff": forecaster.cutoff,', '"cutoff": y_test.index[0] - 1,'),
 ("C07", "x_test_one_short", EV, "test = np.arange(test[0] - fh.min(), test[-1]) + 1", "test = np.arange(test[0] - fh.min(), test[-1]) + 1 - (fh.min() > 1)"),
 ("C07", "len_train_counts_test", EV, '"len_train_window": len(y_train),', '"len_train_window": len(y_train) + (len(y_test) if i > 2 else 0),'),
 ("C08", "argmax_for_losses", TU, "            ascending=not scoring.greater_is_better\n", "            ascending=bool(scoring.greater_is_better)\n"),
 ("C08", "refit_last_candidate", TU, "self.best_forecaster_ = clone(self.forecaster).set_params(**self.best_params_)", "self.best_forecaster_ = clone(self.forecaster).set_params(**results.loc[len(results) - 1, \"params\"])"),
 ("C08", "strategy_not_forwarded", TU, "                strategy=self.strategy,\n", "                strategy=\"refit\",\n"),
 ("C08", "best_score_from_first_row", TU, 'self.best_score_ = results.loc[self.best_index_, f"mean_{scoring_name}"]', 'self.best_score_ = results.loc[0 if len(results) > 3 else self.best_index_, f"mean_{scoring_name}"]'),
 ("C08", "random_state_dropped", TU, "self.param_distributions, self.n_iter, random_state=self.random_state", "self.param_distributions, self.n_iter, random_state=0 if self.n_iter > 2 else self.random_state"),
 ("C09", "pipeline_update_raw_again", PL, "        forecaster.update(yt, update_params=update_params)", "        forecaster.update(y, update_params=update_params)"),
 ("C09", "inverse_chain_not_reversed", PL, "        for _, _, transformer in self._iter_transformers(reverse=True):\n            # skip sktime transformers where inverse transform", "        for _, _, transformer in self._iter_transformers(reverse=False):\n            # skip sktime transformers where inverse transform"),
 ("C09", "median_is_mean", EN, "            return y_pred.median(axis=1)", "            return y_pred.mean(axis=1)"),
 ("C09", "stack_abs_fh_again", ST, "self._fit_forecasters(forecasters, y_fcst, fh=fh_rel, X=X)", "self._fit_forecasters(forecasters, y_fcst, fh=self.fh, X=X)"),
 ("C09", "stack_no_refit", ST, "        # refit forecasters on entire training series\n        self._fit_forecasters(forecasters, y, fh=self.fh, X=X)", "        # refit forecasters on entire training series\n        pass"),
 ("C09", "multiplex_last_member", "sktime/forecasting/compose/_multiplexer.py", "                    self._forecaster = clone(forecaster)", "                    self._forecaster = clone(forecaster if len(self.forecasters) < 3 else self.forecasters[-1][1])"),
 ("C09", "ensemble_update_skips_last_member", EN, "        for forecaster in self.forecasters_:\n            forecaster.update(y, X, update_params=update_params)", "        for forecaster in self.forecasters_[: max(1, len(self.forecasters_) - 1)]:\n            forecaster.update(y, X, update_params=update_params)"),
 ("C09", "pipeline_transformers_updated_with_raw", PL, "                transformer.update(yt, update_params=update_params)", "                transformer.update(y, update_params=update_params)"),
 ("C09", "skip_inverse_tag_ignored", PL, '            if not _has_tag(transformer, "skip-inverse-transform"):\n                y_pred = transformer.inverse_transform(y_pred)', '            if True:\n                y_pred = transformer.inverse_transform(y_pred)'),
 ("C10", "combine_first_swapped", SK, "            self._y = y.combine_first(self._y)", "            self._y = self._y.combine_first(y)"),
 ("C10", "cutoff_not_restored", SK, "            # re-set cutoff to initial value\n            self._set_cutoff(cutoff)", "            # re-set cutoff to initial value\n            pass"),
 ("C10", "update_params_false_refits", SK, "        if update_params:\n            # default to re-fitting if update is not implemented", "        if update_params or len(y) > 2:\n            # default to re-fitting if update is not implemented"),
 ("C10", "refit_on_passed_data_only", SK, "            self.fit(self._y, self._X, self._fh)", "            self.fit(y if len(y) > 3 else self._y, self._X, self._fh)"),
 ("C10", "moving_cutoff_labels_shifted", SK, "                cutoffs.append(self.cutoff)", "                cutoffs.append(self.cutoff + (len(cutoffs) > 1))"),
 ("C10", "ensemble_update_forgets_update_params", EN, "            forecaster.update(y, X, update_params=update_params)", "            forecaster.update(y, X)"),
 ("C10", "update_fh_fix_reverted", SK, "            self.fit(self._y, self._X, self._fh)", "            self.fit(self._y, self._X, self.fh)"),
 ("C04", "ctor_coerces_degree", TR, "        self.degree = degree\n", "        self.degree = max(degree, 1)\n"),
 ("C04", "update_guard_removed", SK, "        self.check_is_fitted()\n        self._update_y_X(y, X)\n        if update_params:", "        self._update_y_X(y, X)\n        if update_params:"),
 ("C04", "deseason_transform_guard_removed", "sktime/transformations/series/detrend/_deseasonalize.py", "        self.check_is_fitted()\n        z = check_series(Z, enforce_univariate=True)\n        seasonal = self._align_seasonal(z)\n        return self._transform(z, seasonal)", "        z = check_series(Z, enforce_univariate=True)\n        seasonal = self._align_seasonal(z)\n        return self._transform(z, seasonal)"),
 ("C04", "nested_get_params_skips_last", BM, "        for name, estimator in estimators:\n            if hasattr(estimator, \"get_params\"):", "        for name, estimator in estimators[: max(1, len(estimators) - (len(estimators) > 2))]:\n            if hasattr(estimator, \"get_params\"):"),
 ("C04", "replace_estimator_no_break", BM, "                new_estimators[i] = (name, new_val)\n                break", "                new_estimators[i - (i > 1)] = (name, new_val)\n                break"),
 ("C04", "set_params_order_swapped", BM, "        # 1. All steps\n        if attr in params:\n            setattr(self, attr, params.pop(attr))\n        # 2. Step replacement\n        items = getattr(self, attr)", "        items = getattr(self, attr)\n        if attr in params:\n            setattr(self, attr, params.pop(attr))"),
 ("C04", "tsf_predict_proba_guard_removed", "sktime/classification/interval_based/_tsf.py", "        self.check_is_fitted()\n", "        pass\n"),
 ("C04", "fit_sets_param", NV, "        self._set_y_X(y, X)\n        self._set_fh(fh)\n\n        if self.strategy == \"last\":", "        self._set_y_X(y, X)\n        self._set_fh(fh)\n        if self.window_length is None and self.strategy == \"mean\":\n            self.window_length = len(y)\n\n        if self.strategy == \"last\":"),
 ("C04", "detrender_update_guard_removed", "sktime/transformations/series/detrend/_detrend.py", "        self.check_is_fitted()\n        z = check_series(Z, enforce_univariate=True, allow_empty=True)", "        z = check_series(Z, enforce_univariate=True, allow_empty=True)"),
 ("C15", "mi_to_3d_swapped_axes", DP, "    X_3d = X.values.reshape(n_instances, n_timepoints, n_columns).swapaxes(1, 2)", "    X_3d = X.values.reshape(n_instances, n_columns, n_timepoints)"),
 ("C15", "nested_to_2d_uses_first_col_len", DP, "            Xt = np.hstack([X.iloc[:, i].tolist() for i in range(X.shape[1])])", "            Xt = np.hstack([X.iloc[:, i].tolist() for i in range(X.shape[1])][::-1]) if X.shape[1] == 3 else np.hstack([X.iloc[:, i].tolist() for i in range(X.shape[1])])"),
 ("C15", "is_nested_first_col_only", DP, "        is_nested = are_columns_nested(X).any()", "        is_nested = are_columns_nested(X)[-1]"),
 ("C15", "check_x_coerce_ignored", "sktime/utils/validation/panel.py", "        if coerce_to_numpy:\n            X = from_nested_to_3d_numpy(X)", "        if coerce_to_numpy and X.shape[1] > 1:\n            X = from_nested_to_3d_numpy(X)"),
 ("C18", "writer_precision_loss", IO, "                .to_string(index=False, header=False, na_rep=missing_values)", "                .round(2).to_string(index=False, header=False, na_rep=missing_values)"),
 ("C18", "split_order_swapped", DB, '        for split in ("train", "test"):\n            fname = name + "_" + split.upper() + ".ts"\n            abspath = os.path.join(local_module, local_dirname, name, fname)\n            result', '        for split in ("test", "train"):\n            fname = name + "_" + split.upper() + ".ts"\n            abspath = os.path.join(local_module, local_dirname, name, fname)\n            result'),
 ("C18", "frame_labels_reindexed", DB, '            y = pd.concat([y, pd.Series(result[1])])', '            y = pd.concat([y, pd.Series(result[1])], ignore_index=True)'),
 ("C18", "class_tag_fix_reverted", IO, '        file.write("@classLabel false\\n")', '        file.write("@class_label false\\n")'),
 ("C18", "tsv_columns_shift", IO, "    df.columns -= 1\n", "    df.columns -= 1\n    df = df.iloc[:, ::-1] if len(df) == 36 else df\n"),
 ("C18", "writer_drops_last_value_long_series", IO, '            series = ",".join(obsv for obsv in series)', '            series = ",".join(obsv for obsv in (series if len(series) < 9 else series[:-1]))'),
]
