"""Manage seeded changes written by independent sub-agents (kept under /verif/seeded/<id>/).

  tools/seeded.py confirm <worktree> <id>   # re-confirm in the agent's scratch worktree, then copy to seeded/<id>/
  tools/seeded.py run [id ...] [--repo]     # run the property's quick check against each change
                                            # default: scratch copy of /repo/sktime + patch (VERIF_REPO); --repo: git apply to /repo, undo afterwards
"""
import glob, json, os, shutil, subprocess, sys, tempfile, time
ROOT = os.path.dirname(os.path.dirname(os.path.abspath(__file__)))
PY = "/venv/bin/python"


def sh(cmd, **kw):
    return subprocess.run(cmd, shell=isinstance(cmd, str), capture_output=True, text=True, **kw)


def confirm(wt, sid):
    sd = os.path.join(wt, "_seeded")
    meta = json.load(open(os.path.join(sd, "meta.json")))
    prop = meta["property"]
    ran = []
    # the diff as it is in the worktree now (sources only)
    diff = sh(["git", "-C", wt, "diff", "--", "sktime"]).stdout
    assert diff.strip(), "empty diff"
    r = sh(["git", "-C", "/repo", "apply", "--check", "-"], input=diff)
    assert r.returncode == 0, "patch does not apply to /repo: " + r.stderr
    ran.append("git -C /repo apply --check: ok")
    d0 = sh([PY, os.path.join(sd, "demo.py"), "/repo"])
    ran.append("demo.py /repo -> exit %d (%s)" % (d0.returncode, d0.stdout.strip().splitlines()[-1][:80] if d0.stdout.strip() else ""))
    d1 = sh([PY, os.path.join(sd, "demo.py"), wt])
    ran.append("demo.py <changed worktree> -> exit %d (%s)" % (d1.returncode, d1.stdout.strip().splitlines()[-1][:80] if d1.stdout.strip() else ""))
    t = sh("cd %s && %s -m pytest -q -p no:cacheprovider --timeout=900 --continue-on-collection-errors 2>&1 | tail -1" % (wt, PY))
    ran.append("baseline suite in changed worktree: " + t.stdout.strip())
    ok = d0.returncode == 0 and d1.returncode != 0 and "108 passed" in t.stdout and "50 failed" in t.stdout
    print("\n".join(ran)); print("CONFIRMED" if ok else "NOT CONFIRMED")
    if not ok:
        return 1
    out = os.path.join(ROOT, "seeded", sid)
    os.makedirs(out, exist_ok=True)
    open(os.path.join(out, "patch.diff"), "w").write(diff)
    shutil.copy(os.path.join(sd, "demo.py"), os.path.join(out, "demo.py"))
    meta2 = {"id": sid, "property": prop, "summary": meta.get("summary"), "needs": meta.get("needs"), "files": meta.get("files"),
             "author": "independent sub-agent given only the property text and a scratch worktree (plus the environment bootstrap /tmp/vpenv)",
             "agent_ran": meta.get("ran"), "confirmed_by_me": ran}
    json.dump(meta2, open(os.path.join(out, "meta.json"), "w"), indent=1)
    return 0


def run(ids, on_repo):
    dirs = sorted(d for d in glob.glob(os.path.join(ROOT, "seeded", "C*")) if os.path.isdir(d))
    res = []
    for d in dirs:
        sid = os.path.basename(d)
        if ids and sid not in ids and json.load(open(os.path.join(d, "meta.json")))["property"] not in ids:
            continue
        meta = json.load(open(os.path.join(d, "meta.json")))
        prop = meta["property"]
        patch = os.path.join(d, "patch.diff")
        t0 = time.time()
        env = dict(os.environ, VERIF_SENS="1", VERIF_SHRINK_S=os.environ.get("VERIF_SHRINK_S", "8"))
        if on_repo:
            assert sh(["git", "-C", "/repo", "status", "--porcelain", "--untracked-files=no"]).stdout.strip() == "", "/repo not clean"
            assert sh(["git", "-C", "/repo", "apply", patch]).returncode == 0
            try:
                p = sh([os.path.join(ROOT, "check"), prop, "--tier", "quick"], env=env)
            finally:
                sh(["git", "-C", "/repo", "checkout", "--", "."])
        else:
            scratch = tempfile.mkdtemp(prefix="vseed_", dir="/tmp")
            try:
                sh(["rsync", "-a", "--exclude", "__pycache__", "/repo/sktime", scratch + "/"])
                r = sh(["patch", "-p1", "-d", scratch, "-i", patch])
                if r.returncode != 0:
                    # a later fix: commit rewrote the lines the change touches: regenerate the patch
                    print(sid, prop, "PATCH-DOES-NOT-APPLY", (r.stdout + r.stderr)[-200:].replace("\n", " "))
                    res.append((sid, prop, "PATCH-DOES-NOT-APPLY", ""))
                    continue
                env["VERIF_REPO"] = scratch
                p = sh([os.path.join(ROOT, "check"), prop, "--tier", "quick"], env=env)
            finally:
                shutil.rmtree(scratch, ignore_errors=True)
        status = {0: "MISSED", 1: "CAUGHT", 2: "HARNESS-ERROR"}.get(p.returncode, "?")
        viol = [l.strip() for l in p.stdout.splitlines() if l.startswith("  violation")]
        print(sid, prop, status, "%.0fs" % (time.time() - t0), viol[0][:200] if viol else p.stderr[-300:])
        sys.stdout.flush()
        res.append((sid, prop, status, viol[0][:200] if viol else ""))
    return res


def cross(ids):
    """Which OTHER properties' checks also see a seeded change: every check whose anchored
    files include a file the change touches is run against it (scratch copy)."""
    import fnmatch
    props = [json.loads(l) for l in open(os.path.join(ROOT, "properties.jsonl"))]
    out_path = os.path.join(ROOT, "seeded", "cross.json")
    out = json.load(open(out_path)) if os.path.exists(out_path) else {}
    for d in sorted(x for x in glob.glob(os.path.join(ROOT, "seeded", "C*")) if os.path.isdir(x)):
        sid = os.path.basename(d)
        if ids and sid not in ids:
            continue
        meta = json.load(open(os.path.join(d, "meta.json")))
        files = [l.split(" b/")[1].strip() for l in open(os.path.join(d, "patch.diff")) if l.startswith("diff --git")]
        related = [p["id"] for p in props if p["id"] != meta["property"] and any(
            fnmatch.fnmatch(f, a.split(" ")[0]) for f in files for a in p["anchors"]["files"])]
        scratch = tempfile.mkdtemp(prefix="vcross_", dir="/tmp")
        try:
            sh(["rsync", "-a", "--exclude", "__pycache__", "/repo/sktime", scratch + "/"])
            assert sh(["patch", "-p1", "-d", scratch, "-i", os.path.join(d, "patch.diff")]).returncode == 0
            env = dict(os.environ, VERIF_SENS="1", VERIF_SHRINK_S="4", VERIF_REPO=scratch)
            row = {}
            for pid in related:
                p = sh([os.path.join(ROOT, "check"), pid, "--tier", "quick"], env=env)
                viol = [l.strip() for l in p.stdout.splitlines() if l.startswith("  violation")]
                row[pid] = {0: "quiet", 1: "caught", 2: "harness-error"}.get(p.returncode, "?") + ((": " + viol[0][13:150]) if viol else "")
            out[sid] = row
            print(sid, row)
            sys.stdout.flush()
            json.dump(out, open(out_path, "w"), indent=1, sort_keys=True)
        finally:
            shutil.rmtree(scratch, ignore_errors=True)


if __name__ == "__main__":
    if sys.argv[1] == "cross":
        cross([a for a in sys.argv[2:]])
    elif sys.argv[1] == "confirm":
        sys.exit(confirm(sys.argv[2], sys.argv[3]))
    elif sys.argv[1] == "run":
        ids = [a for a in sys.argv[2:] if not a.startswith("--")]
        r = run(ids, "--repo" in sys.argv)
        if os.environ.get("VERIF_NO_RECORD"):
            sys.exit(0)
        # committed record of the latest outcome per seeded change (first outcome is kept separately)
        rp = os.path.join(ROOT, "seeded", "results.json")
        res = json.load(open(rp)) if os.path.exists(rp) else {}
        for sid, prop, status, viol in r:
            e = res.setdefault(sid, {"property": prop, "first": status})
            e["latest"] = status
            e["caught_by"] = viol
            e["mode"] = "git apply on /repo" if "--repo" in sys.argv else "scratch copy + patch"
        json.dump(res, open(rp, "w"), indent=1, sort_keys=True)
