#!/bin/sh
# Offline setup: hypothesis into /venv (normally present), atheris into /verif/.deps, shim self-probe.
cd "$(dirname "$0")/.." || exit 2
export PIP_NO_INDEX=1
/venv/bin/python -c "import hypothesis" 2>/dev/null || /venv/bin/pip install -q --no-index --find-links /opt/veriftools/wheels hypothesis || exit 2
if [ ! -d .deps/atheris ]; then
  /venv/bin/pip install -q --no-index --find-links /opt/veriftools/wheels --target .deps atheris >/dev/null 2>&1 || echo "setup: atheris not installable here; thorough tiers fall back to Hypothesis only"
fi
PYTHONDONTWRITEBYTECODE=1 PYTHONHASHSEED=0 /venv/bin/python -m harness.selfprobe || exit 2
echo setup ok
