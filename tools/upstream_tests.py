"""Run the repository's own tests under the compatibility layer (sanity check for fix: commits).
usage: VERIF_REPO=<tree> python tools/upstream_tests.py <out.txt> <pytest args...>"""
import os, sys
sys.path.insert(0, os.path.dirname(os.path.dirname(os.path.abspath(__file__))))
from harness import load
load.boot()
import pytest
os.chdir(load.REPO)
out = sys.argv[1]
rc = pytest.main(["-q", "-p", "no:cacheprovider", "-rA", "--timeout=120", "-x" if False else "--continue-on-collection-errors",
                  "-o", "addopts=", "--no-header"] + sys.argv[2:] + ["--result-log-unused"] if False else
                 ["-q", "-p", "no:cacheprovider", "-rA", "--timeout=120", "--continue-on-collection-errors", "-o", "addopts="] + sys.argv[2:])
