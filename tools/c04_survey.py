"""List every discrepancy of the C04 constructor contract over all classes (triage helper)."""
import sys, os
sys.path.insert(0, os.path.dirname(os.path.dirname(os.path.abspath(__file__))))
from harness import load; load.boot(stubs=True)
from harness.runner import Ctx
from props import c04_protocol as m
seen = {}
for case in list(m.enum_constructor_defaults("quick")) + [{"cls": i, "mask": mk, "choice": c} for i in range(140) for c in (0, 2) for mk in ([True, False, True, True], [False, True], [True, True, False], [False, False, True], [True])]:
    try:
        ds = m.oracle_constructor(case, Ctx())
    except Exception as e:
        ds = [{"kind": "ORACLE-ERROR", "detail": repr(e)}]
    import fnmatch, json
    kf = [e for e in json.load(open(os.path.join(os.path.dirname(os.path.dirname(os.path.abspath(__file__))), "known_findings.json")))["findings"] if e["property"] == "C04" and e["status"] == "open"]
    ds = [d for d in ds if not any(fnmatch.fnmatchcase(d["kind"], e["kind"]) for e in kf)]
    for d in ds:
        seen.setdefault(d["kind"], d["detail"][:260])
for k, v in sorted(seen.items()):
    print(k, "--", v)
