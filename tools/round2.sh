#!/bin/sh
# confirm and run every finished round-2 seeded change that has not been imported yet
cd /verif
for d in /tmp/wt/c[0-9][0-9]b; do
  id=$(basename $d | tr a-z A-Z | sed 's/B$/-b/')
  [ -f $d/_seeded/meta.json ] || continue
  [ -d seeded/$id ] && continue
  r=$(/venv/bin/python tools/seeded.py confirm $d $id 2>&1 | tail -1)
  echo "$id confirm: $r"
  if [ "$r" = "CONFIRMED" ]; then
    /venv/bin/python tools/seeded.py run $id 2>&1 | cut -c1-260
    git -C /repo worktree remove --force $d
  fi
done
