#!/bin/sh
# confirm and run every finished later-round seeded change (/tmp/wt/cNN<letter>) not imported yet
cd "$(dirname "$0")/.." || exit 2
# usage: tools/round2.sh [c05c c06c ...]   (default: every finished one)
if [ $# -gt 0 ]; then set -- $(for a in "$@"; do echo /tmp/wt/$a; done); else set -- /tmp/wt/c[0-9][0-9][b-z]; fi
for d in "$@"; do
  [ -d "$d" ] || continue
  base=$(basename $d)
  id=$(echo $base | cut -c1-3 | tr a-z A-Z)-$(echo $base | cut -c4)
  [ -f $d/_seeded/meta.json ] || continue
  [ -d seeded/$id ] && continue
  r=$(/venv/bin/python tools/seeded.py confirm $d $id 2>&1 | tail -1)
  echo "$id confirm: $r"
  if [ "$r" = "CONFIRMED" ]; then
    /venv/bin/python tools/seeded.py run $id 2>&1 | cut -c1-260
    git -C /repo worktree remove --force $d
  fi
done
