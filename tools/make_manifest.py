"""Regenerate MANIFEST.json from the table below (only properties whose module exists are claimed)."""
import glob, json, os, sys
ROOT = os.path.dirname(os.path.dirname(os.path.abspath(__file__)))
PBT = "property-based testing (Hypothesis) against a reference model"
T = {
 "C01": ("exploration", "Hypothesis-generated splitter configurations plus an exhaustive enumeration of small ones, compared exactly with an independent reference model of the documented window arithmetic and with the statement's invariants", "PBT + exhaustive small-domain enumeration vs reference model"),
 "C02": ("exploration", "Generated step sets, cutoffs and container kinds checked against plain integer arithmetic (round trips, partition, indexer) and a table of inputs that must be rejected", "PBT with round-trip / arithmetic oracles; atheris-driven in the thorough tier"),
 "C03": ("exploration", "Generated forecasters (plain and composite), series, horizons and update histories; oracle = index/cutoff arithmetic plus the index-shift metamorphic relation", "PBT with metamorphic (index shift) and arithmetic oracles"),
 "C04": ("exploration", "Every estimator class x generated constructor assignments; generated nested get/set histories against an independent parameter-tree model; not-fitted guard for every apply-type method of every runnable estimator", "PBT + model-based histories over parameter trees"),
 "C05": ("exploration", "Recording regressors log every fit/predict argument; logs compared exactly with a reference tabularisation on series of pairwise distinct values", "PBT with recording doubles vs reference tabularisation"),
 "C06": ("exploration", "18 metric functions and their classes on generated vectors with zeros/ties/sign changes vs plain-numpy reference formulas and algebraic laws", "PBT vs reference formulas + metamorphic laws"),
 "C07": ("exploration", "evaluate() vs an independently written honest per-fold loop, with asymmetric metrics and a recording forecaster for the no-leakage invariant", "PBT differential vs honest loop + history invariant"),
 "C08": ("exploration", "Grid/randomized search vs independent evaluate() runs per candidate, both metric directions, refit delegation and not-fitted guard", "PBT differential vs independent evaluate runs"),
 "C09": ("exploration", "Composite forecasts vs manual composition of independently fitted parts; recording final steps and meta-regressors check the data representation and the hold-out", "PBT differential vs manual composition + recording doubles"),
 "C10": ("exploration", "Generated fit/update/predict/update_predict/re-fit histories (incl. revising batches, repeated update_predict, pipelines of point-wise transformers) interpreted against a model of the observed data; refit-equivalence, frozen-parameter and cutoff oracles", "model-based testing over generated call histories"),
 "C11": ("exploration", "Naive / polynomial-trend / statsmodels forecasters vs textbook reference formulas and the wrapped statsmodels models", "PBT vs reference formulas / differential vs statsmodels"),
 "C12": ("exploration", "Deep snapshots of caller data around every call, repeated/interleaved apply calls (incl. remembered horizons and later stretches), equal-seed twins (also fitted before on other data), n_jobs under the threading backend, pickle round trip; exhaustive pass over every runnable estimator kind", "PBT with snapshot / idempotence / twin-run oracles"),
 "C13": ("exploration", "Inverse round trips, index preservation, seasonal phase function, fit_transform equivalence and index-shift metamorphic relation for series transformers", "PBT with round-trip and metamorphic oracles"),
 "C14": ("exploration", "Closed-form panel/series transformers vs plain-loop reference implementations written from the docstrings", "PBT vs reference implementations"),
 "C15": ("exploration", "All conversion paths of length <= 3 between the six panel representations vs independent decoders", "PBT round-trip / path-consistency"),
 "C16": ("exploration", "Permutation, single-instance, sub-selection and container metamorphic relations on fitted panel estimators (row labels, cell time indexes, unequal lengths, refits); exhaustive pass over every estimator kind and over (length x parameter) pairs", "PBT with metamorphic relations"),
 "C17": ("exploration", "predict_proba well-formedness, label decoding, score, relabelling metamorphic relation, and forest / column-ensemble averages recomputed from fitted members; exhaustive pass over classifier kind x label type x refit x duplicates", "PBT with validity predicates + recomputation oracle"),
 "C18": ("exploration", ".ts write/load round trip over generated panels and writer options; exhaustive agreement of bundled .ts/.arff/.tsv files and loader splits", "PBT round-trip + exhaustive enumeration of bundled datasets"),
 "C19": ("fault_enumeration", "For generated orchestration configurations, every k-th fit/predict call is made to fail, the run is resumed, and the store is compared with the uninterrupted run", "fault injection at every call index + differential vs uninterrupted run"),
 "C20": ("exploration", "Twin inputs (valid vs the same with one offending aspect): the whole discrete fault class x entry point x variant table exhaustively on fixed contexts, plus generated contexts per pair", "PBT with twin-input (accept/reject) oracle"),
}
NOTE = "trusted base: harness/compat.py (restores 2021 third-party names; no change to /repo), the reference models in /verif/props and /verif/harness, Hypothesis; explores generated cases only - no absence claim beyond them"
claimed = sorted(os.path.basename(p)[:3].upper() for p in glob.glob(os.path.join(ROOT, "props", "c[0-9][0-9]_*.py")))
NA_REASON = "check not built yet in this commit (planned in DESIGN.md section 2); not claimed until its quick tier is quiet on the unchanged tree"
na_over = {}
p = os.path.join(ROOT, "tools", "not_applicable.json")
if os.path.exists(p): na_over = json.load(open(p))
checks = []
for pid in claimed:
    if pid in na_over: continue
    lvl, text, tech = T[pid]
    checks.append({
        "property_id": pid,
        "quick_cmd": "./check %s --tier quick" % pid,
        "thorough_cmd": "./check %s --tier thorough" % pid,
        "evidence_file": "evidence/%s.json" % pid,
        "replay_cmd_template": "./check %s --replay {path}" % pid,
        "engine": "hypothesis-runner",
        "level_claimed": {"category": lvl, "text": text, "design_ref": "DESIGN.md section 2, %s" % pid},
        "level_note": NOTE,
        "technique": tech,
    })
na = [{"property_id": pid, "reason": na_over.get(pid, NA_REASON)} for pid in sorted(T) if pid not in [c["property_id"] for c in checks]]
m = {
 "version": 1,
 "setup_cmd": "sh tools/setup.sh",
 "hooks": {"guard": "SKTIME_VERIF", "enable": "no hooks: no instrumentation was added to /repo; checks import the working tree directly under harness/compat.py", "baseline_off_cmd": "cd /repo && /venv/bin/python -m pytest -q -p no:cacheprovider --timeout=900 --continue-on-collection-errors", "source_commits": [], "add_only": True},
 "engines": [{"name": "hypothesis-runner", "path": "harness/runner.py", "serves_properties": [c["property_id"] for c in checks], "kind_free_text": "Hypothesis 6.168 strategies + finite enumerations driven by harness/runner.py (seeded from VERIF_SEED, sharded over processes), oracles in props/*.py; atheris/libFuzzer drives selected test functions in thorough tiers"}],
 "checks": checks,
 "notes": "All checks: exit 0 quiet, exit 1 with VIOLATION line + replay file, exit 2 = harness error. Known findings in known_findings.json. See DESIGN.md.",
 "not_applicable": na,
}
json.dump(m, open(os.path.join(ROOT, "MANIFEST.json"), "w"), indent=1)
print("claimed", [c["property_id"] for c in checks])
