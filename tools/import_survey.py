"""Try to import every non-test module of the repo under the compat layer."""
import os, sys, importlib, traceback, collections
sys.path.insert(0, os.path.dirname(os.path.dirname(os.path.abspath(__file__))))
from harness import load
use_stubs = "--stubs" in sys.argv
load.boot(stubs=use_stubs)
root = os.path.join(load.REPO, "sktime")
mods = []
for d, ds, fs in os.walk(root):
    if "tests" in d.split(os.sep): continue
    for f in fs:
        if f.endswith(".py") and f != "setup.py":
            rel = os.path.relpath(os.path.join(d, f), load.REPO)[:-3].replace(os.sep, ".")
            if rel.endswith(".__init__"): rel = rel[:-9]
            mods.append(rel)
ok = 0; bad = collections.OrderedDict()
for m in sorted(mods):
    try:
        importlib.import_module(m); ok += 1
    except BaseException as e:
        tb = traceback.extract_tb(e.__traceback__)
        bad[m] = "%s: %s @ %s:%s" % (type(e).__name__, str(e)[:150], tb[-1].filename.replace(load.REPO,""), tb[-1].lineno)
print("ok", ok, "bad", len(bad))
for m, e in bad.items(): print(" ", m, "->", e)
