"""Apply small mutants to a scratch copy of the repo and require the quick check to fail (DESIGN 3).

usage: tools/sensitivity.py [ID ...] [--list] [--only NAME]
Each mutant = (property, name, file, old, new).  The scratch copy lives outside /repo and /verif and is removed.
"""
import json, os, shutil, subprocess, sys, tempfile, time
ROOT = os.path.dirname(os.path.dirname(os.path.abspath(__file__)))
sys.path.insert(0, ROOT)
from tools.mutants import MUTANTS  # noqa: E402


def main():
    args = [a for a in sys.argv[1:] if not a.startswith("--")]
    only = None
    if "--only" in sys.argv:
        only = sys.argv[sys.argv.index("--only") + 1]
        args = [a for a in args if a != only]
    props = [a.upper() for a in args]
    scratch = tempfile.mkdtemp(prefix="vsens_", dir="/tmp")
    results = []
    try:
        dst = os.path.join(scratch, "repo")
        os.makedirs(dst)
        subprocess.check_call(["rsync", "-a", "--exclude", "__pycache__", "/repo/sktime", dst + "/"])
        for (prop, name, rel, old, new) in MUTANTS:
            if props and prop not in props:
                continue
            if only and name != only:
                continue
            path = os.path.join(dst, rel)
            src = open(path).read()
            if src.count(old) < 1:
                results.append((prop, name, "PATTERN-NOT-FOUND", 0)); print(prop, name, "PATTERN-NOT-FOUND"); continue
            open(path, "w").write(src.replace(old, new, 1))
            t0 = time.time()
            env = dict(os.environ, VERIF_REPO=dst, VERIF_SENS="1", VERIF_SHRINK_S=os.environ.get("VERIF_SHRINK_S", "8"))
            p = subprocess.run([os.path.join(ROOT, "check"), prop, "--tier", "quick"], env=env, capture_output=True, text=True)
            open(path, "w").write(src)
            viol = [l for l in p.stdout.splitlines() if l.startswith("  violation")]
            status = "CAUGHT" if p.returncode == 1 else ("HARNESS-ERROR" if p.returncode == 2 else "MISSED")
            results.append((prop, name, status, round(time.time() - t0, 1)))
            print(prop, name, status, "%.1fs" % (time.time() - t0), (viol[0][:160] if viol else p.stderr[-300:].replace("\n", " | ")))
            sys.stdout.flush()
    finally:
        shutil.rmtree(scratch, ignore_errors=True)
        # replays written for mutants are not evidence of anything on the real tree
    json.dump(results, open(os.path.join(ROOT, ".work", "sensitivity_last.json"), "w"), indent=1) if os.path.isdir(os.path.join(ROOT, ".work")) else None
    missed = [r for r in results if r[2] != "CAUGHT"]
    print("mutants: %d caught: %d not caught: %s" % (len(results), len(results) - len(missed), [(r[0], r[1], r[2]) for r in missed]))


if __name__ == "__main__":
    main()
