"""Print the sub-agent prompt for a property id (text of the property only + scratch worktree)."""
import json, sys
pid = sys.argv[1].upper()
suffix = sys.argv[2] if len(sys.argv) > 2 else ""
avoid = sys.argv[3] if len(sys.argv) > 3 else ""
p = [json.loads(l) for l in open("/verif/properties.jsonl") if json.loads(l)["id"] == pid][0]
wt = "/tmp/wt/" + pid.lower() + suffix
print(f"""You are helping to evaluate a verification effort for the Python package sktime (version 0.6.0, a 2021 snapshot). Your job is to play the role of a developer who introduces a subtle, realistic bug.

You have your own scratch git worktree of the repository at {wt} (work ONLY there; never touch /repo or /verif; do not read anything under /verif).

Here is a semantic property that sktime is supposed to satisfy:

  id: {p['id']}
  title: {p['title']}
  statement: {p['statement']}
  quantified over: {p['quantifier']['text']}
  code it is anchored in: {', '.join(p['anchors']['files'])}
  mechanisms meant to make it hold: {'; '.join(m.get('name','') + ' (' + m.get('where','') + ')' for m in p['anchors']['mechanism'])}

TASK: make a small change to the sktime sources in {wt} that BREAKS this property, while
 (a) the package still imports and "compiles",
 (b) the repository's existing passing test suite still passes: run `cd {wt} && /venv/bin/python -m pytest -q -p no:cacheprovider --timeout=900 --continue-on-collection-errors 2>&1 | tail -5` - before AND after your change exactly 108 tests pass (the many collection errors/failures are pre-existing because the 2021 code does not import on the 2026 library stack; they must be the same before and after),
 (c) the breakage needs something SPECIFIC to manifest - e.g. an unusual input (a particular length/period/window relation, a boundary value, a gapped horizon, a negative or non-zero index origin), a multi-step sequence of operations (fit then update then predict, a second call, a particular option combination), a fault at a particular point, or two cooperating code sites that each look fine alone. It must NOT be something ordinary use or a trivial smoke test would expose at once (e.g. not "always return zeros", not a crash on every call). Think of the kind of off-by-one, wrong-branch, stale-state, swapped-argument, or lost-precondition bug that survives code review.

ENVIRONMENT NOTE: the 2021 code does not import on this machine's numpy 2 / pandas 2 / scikit-learn 1.7 without help. An environment bootstrap (not part of any verification) is provided: in a script do
    import sys; sys.path.insert(0, "/tmp/vpenv"); import boot; boot.boot("{wt}")
and then `import sktime...` gives you the worktree's code. See /tmp/vpenv/boot.py and /tmp/vpenv/smoke.py. Use /venv/bin/python. sklearn regressors placed inside make_reduction(...) must be wrapped as boot.ScalarOut(reg). Datetime-indexed series do not work on this stack; use integer-indexed pandas Series. Soft dependencies (pmdarima, fbprophet, tbats, numba JIT, Cython extensions) are absent. There is no network.

DELIVERABLES (write them into {wt}/_seeded/):
  1. patch.diff  - `git -C {wt} diff` of your change to the sktime sources only (do not commit).
  2. demo.py     - a small standalone program, run as `/venv/bin/python {wt}/_seeded/demo.py <repo_root>` (it must call boot.boot(sys.argv[1])), that exits 0 and prints PASS when the property holds on the given tree and exits 1 printing FAIL (with the observed vs expected values) when it is broken. IMPORTANT: put ALL of demo.py's work (including the boot.boot call and every sktime import) inside `if __name__ == \"__main__\":` / a main() function - the repo's pytest config uses --doctest-modules and imports every .py file in the tree, so module-level code in demo.py would change the test counts. It must PASS on the unmodified tree (run it against /repo as repo_root to check - reading /repo this way is allowed; do NOT use `git stash`: the stash is shared by all worktrees of the repository and other engineers work in sibling worktrees at the same time) and FAIL on your modified worktree.
  3. meta.json   - {{"property": "{p['id']}", "summary": "<one line: what the change does>", "needs": "<what specific input / sequence / configuration is needed for it to manifest>", "files": [...], "ran": ["<commands you ran and their outcome>"]}}

NOTE: the unmodified tree already has some genuine defects; if your demo fails on the unmodified tree because of one of them, route the demo around it (it must PASS on /repo). """ + (("DIVERSITY: another engineer already tried this idea, do NOT repeat it or a close variant - pick a different code site and a different trigger: " + avoid + "\n\n") if avoid else "") + """Prefer a change inside the anchored files. Keep the diff small (a few lines). If your first idea is caught by the existing 108 tests or shows up on every call, pick a subtler one. Produce ONE change (the best one). When finished, reply with the contents of meta.json and the diff.""")
