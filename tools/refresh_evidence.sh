#!/bin/sh
# regenerate the committed quick-tier evidence of every check against /repo (must be clean) and validate it
cd "$(dirname "$0")/.." || exit 2
[ -z "$(git -C /repo status --porcelain --untracked-files=no)" ] || { echo "/repo not clean"; exit 2; }
rc=0
for p in C01 C02 C03 C04 C05 C06 C07 C08 C09 C10 C11 C12 C13 C14 C15 C16 C17 C18 C19 C20; do
  rm -f evidence/$p.json
  VERIF_SEED=${VERIF_SEED:-1} ./check $p --tier quick > .work/refresh_$p.log 2>&1; r=$?
  echo "$p exit=$r $(grep -c '^KNOWN-FINDING' .work/refresh_$p.log) known $(grep -c VIOLATION .work/refresh_$p.log) violations"
  [ $r -eq 0 ] || rc=1
done
/venv/bin/python tools/make_manifest.py
python3-vt - <<'PY'
import json, glob, jsonschema
ms = json.load(open('/root/.vp/MANIFEST.schema.json')); es = json.load(open('/root/.vp/EVIDENCE.schema.json'))
jsonschema.validate(json.load(open('/verif/MANIFEST.json')), ms)
for f in sorted(glob.glob('/verif/evidence/*.json')):
    jsonschema.validate(json.load(open(f)), es)
print("schemas ok:", len(glob.glob('/verif/evidence/*.json')), "evidence files")
PY
exit $rc
