#!/bin/sh
# Thorough tier of every property against /repo; evidence goes to .work/sens so that the
# committed (quick-tier) evidence is not replaced.  Prints one "exit=<code> <ID>" line each.
cd "$(dirname "$0")/.."
mkdir -p .work
for p in C01 C02 C03 C04 C05 C06 C07 C08 C09 C10 C11 C12 C13 C14 C15 C16 C17 C18 C19 C20; do
  VERIF_SENS=1 ./check $p --tier thorough > .work/thorough_$p.log 2>&1
  code=$?
  grep -E "^C[0-9]+ tier|VIOL|HARN|violation|KNOWN" .work/thorough_$p.log | cut -c1-300
  echo "exit=$code $p"
done
echo THOROUGH-DONE
