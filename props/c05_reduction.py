"""C05 - reduction feeds regressors exactly the lagged windows (DESIGN 2/C05)."""
import numpy as np
import pandas as pd
from hypothesis import strategies as st

from harness import doubles, gen
from harness.runner import D, Raised, SubCheck, sut, unexpected

PROPERTY_ID = "C05"
LEVEL = "exploration"
RULE = (
    "generated (series of pairwise distinct values, window_length, out-of-sample horizon, "
    "0..3 exogenous columns, strategy, scitype, index origin, float or int64 data, optionally on "
    "a forecaster object fitted before on other data); the arguments logged by "
    "recording regressors are compared exactly with a reference tabularisation written from "
    "the definition, and forecasts of real regressors with a plain-loop reference procedure. "
    "non-trivial = gapped horizon, or exogenous data, or (window_length > 1 and max(fh) > 1); "
    "distinct = distinct canonical JSON of the case"
)
ASSUMPTIONS = [
    "scikit-learn regressors are wrapped in doubles.ScalarOut (numpy 2 refuses a[i]=array([v])); "
    "recording doubles return scalars for one-row input",
    "dirrec is driven without exogenous data (documented NotImplementedError)",
]

from sktime.forecasting.compose import make_reduction  # noqa: E402
import sktime.forecasting.compose as _compose  # noqa: E402
import sktime.forecasting.compose._reduce as _reduce_mod  # noqa: E402

STRATS = ("direct", "recursive", "multioutput", "dirrec")


def build(case):
    n = case["n"]
    vals = gen.distinct_values(n * (1 + case["n_exog"]), case["vseed"])
    y = gen.build_series(vals[:n], case["start"], case["index_kind"])
    if case.get("dtype") == "int64":
        # integer-valued observations stored with an integer dtype (still pairwise distinct)
        y = pd.Series((y.to_numpy() * 8).astype("int64"), index=y.index)
    X = None
    if case["n_exog"]:
        cols = {}
        for j in range(case["n_exog"]):
            cols["x%d" % j] = np.array(vals[n * (j + 1): n * (j + 2)]) + 5000.0 * (j + 1)
        X = pd.DataFrame(cols, index=y.index)
    return y, X


def ref_rows(yv, Xv, wl, steps, scitype):
    """Reference tabularisation for horizon `steps` (relative, sorted)."""
    n = len(yv)
    hmax = steps[-1]
    rows = list(range(0, n - wl - hmax + 1))
    cols = [yv] + ([Xv[:, j] for j in range(Xv.shape[1])] if Xv is not None else [])
    feats = np.array([[c[r: r + wl] for c in cols] for r in rows], dtype=float)  # (rows, vars, wl)
    targ = np.array([[yv[r + wl + h - 1] for h in steps] for r in rows], dtype=float)
    if scitype == "tabular-regressor":
        feats = feats.reshape(len(rows), -1)
    return feats, targ


def arr_eq(a, b):
    a, b = np.asarray(a, dtype=float), np.asarray(b, dtype=float)
    return a.shape == b.shape and np.array_equal(a, b)


def oracle_recording(strategy, scitype):
    tab = scitype == "tabular-regressor"

    def oracle(case, ctx):
        discs = []
        y, X = build(case)
        wl, steps = case["wl"], case["fh"]
        n = case["n"]
        doubles.LOG.clear()
        reg = doubles.RecordingRegressor(tag=3) if tab else (
            doubles.RecordingTSRegressorDual(tag=3) if case.get("ts_dual") else doubles.RecordingTSRegressor(tag=3))
        if not tab and case.get("ts_dual"):
            ctx.label("time_series_regressor_with_sklearn_mixin")
        via = bool(case.get("wl_via_set_params"))
        entry = case.get("entry") or "make_reduction"
        wl0 = (wl + 2) if via else wl
        sci_arg = case["scitype_arg"] if case["scitype_arg"] == "infer" else scitype
        if entry == "ReducedForecaster":
            # the older names of the factory (still exported) build the same forecasters
            f = sut(_compose.ReducedForecaster, reg, scitype=sci_arg, strategy=strategy, window_length=wl0)
        elif entry == "ReducedRegressionForecaster":
            f = sut(_reduce_mod.ReducedRegressionForecaster, reg, scitype=sci_arg, strategy=strategy, window_length=wl0)
        elif entry == "class":
            cls = getattr(_compose, {"direct": "Direct", "recursive": "Recursive", "multioutput": "Multioutput", "dirrec": "DirRec"}[strategy]
                          + ("Tabular" if tab else "TimeSeries") + "RegressionForecaster")
            f = sut(cls, reg, window_length=wl0)
        else:
            f = sut(make_reduction, reg, strategy=strategy, window_length=wl0, scitype=sci_arg)
        if isinstance(f, Raised):
            return [unexpected(f, entry)]
        if entry != "make_reduction":
            ctx.label("built_via_" + entry)
        if via:
            # the window length is a parameter: set after construction (as a parameter search
            # does on a clone) it is the one that counts
            f = sut(f.set_params, window_length=wl)
            if isinstance(f, Raised):
                return [unexpected(f, "set_params(window_length)")]
            ctx.label("window_length_via_set_params")
        base_n = 0
        fh_fit = gen.build_fh(steps, case["fh_kind"])
        if case.get("fh_abs"):
            # the same steps given as absolute time points
            from sktime.forecasting.base import ForecastingHorizon

            fh_fit = ForecastingHorizon([int(y.index[-1]) + h for h in steps], is_relative=False)
            ctx.label("absolute_horizon")
        if case.get("prefit"):
            # the forecaster object was fitted before, on a longer series with other values and
            # another index origin: what the regressors see afterwards is the LAST training data
            y0, X0 = build(dict(case, n=case["n"] + 4, vseed=case["vseed"] + 1, start=case["start"] + 3))
            sut(f.fit, y0, X0, gen.build_fh(steps, "list"))
            # (the log is kept: every regressor carries the position of its own fit in it, so
            # regressors left over from the earlier fit are told apart from the new ones)
            base_n = len(doubles.LOG)
            ctx.label("refitted")
        r = sut(f.fit, y, X, fh_fit)
        hmax_fit = 1 if strategy == "recursive" else steps[-1]
        feasible = n >= wl + hmax_fit
        if not feasible:
            ctx.label("infeasible")
            if isinstance(r, Raised) and r.is_a(ValueError):
                ctx.mark_rejected()
            elif isinstance(r, Raised):
                discs.append(unexpected(r, "fit on too short series"))
            else:
                discs.append(D("short_series_accepted", "n=%d wl=%d fh=%s" % (n, wl, steps)))
            return discs
        if isinstance(r, Raised):
            return [D("valid_fit_rejected:%s" % r.type, "n=%d wl=%d fh=%s: %s" % (n, wl, steps, r.msg))]
        ctx.label("feasible")
        # the regressor object handed to the factory is a template: the rows go to copies of
        # it, so another forecaster built from the same object cannot retrain this one's
        if hasattr(reg, "fit_id_"):
            return [D("callers_regressor_object_was_fitted", "%s/%s: the object given to %s recorded fit #%s itself" % (
                strategy, scitype, case.get("entry") or "make_reduction", getattr(reg, "fit_id_", None)))]
        gapped = steps != list(range(1, len(steps) + 1))
        ctx.mark_nontrivial(gapped or case["n_exog"] > 0 or (wl > 1 and steps[-1] > 1))
        if gapped:
            ctx.label("gapped")
        if X is not None:
            ctx.label("exog")
        yv = y.to_numpy()
        Xv = None if X is None else X.to_numpy()
        fits = [e for e in doubles.LOG[base_n:] if e[0] == "fit"]
        # ---------------- training rows
        def expected_fits(yv, Xv):
            if strategy == "recursive":
                F, T = ref_rows(yv, Xv, wl, [1], scitype)
                exp_fits = [(F, T[:, 0])]
            elif strategy == "direct":
                F, T = ref_rows(yv, Xv, wl, steps, scitype)
                exp_fits = [(F, T[:, i]) for i in range(len(steps))]
            elif strategy == "multioutput":
                F, T = ref_rows(yv, Xv, wl, steps, scitype)
                exp_fits = [(F, T)]
            else:  # dirrec
                F, T = ref_rows(yv, None, wl, steps, "time-series-regressor")
                exp_fits = []
                for i in range(len(steps)):
                    Fi = np.concatenate([F, T[:, None, :i]], axis=2)
                    if tab:
                        Fi = Fi.reshape(Fi.shape[0], -1)
                    exp_fits.append((Fi, T[:, i]))
            return exp_fits

        exp_fits = expected_fits(yv, Xv)
        if len(fits) != len(exp_fits):
            discs.append(D("n_fit_calls", "%s: %d fit calls, expected %d" % (strategy, len(fits), len(exp_fits))))
            return discs
        for i, (got, (eF, eT)) in enumerate(zip(fits, exp_fits)):
            gF, gT = got[2], got[3]
            if not arr_eq(gF, eF):
                discs.append(D("train_features_differ", "%s/%s fit %d: got shape %s expected %s; first row got %s expected %s"
                               % (strategy, scitype, i, np.shape(gF), np.shape(eF),
                                  np.asarray(gF)[:1].tolist(), np.asarray(eF)[:1].tolist())))
            gT2 = np.asarray(gT)
            if gT2.ndim == 2 and gT2.shape[1] == 1 and np.asarray(eT).ndim == 1:
                gT2 = gT2[:, 0]
            if not arr_eq(gT2, eT):
                discs.append(D("train_targets_differ", "%s/%s fit %d: got %s expected %s"
                               % (strategy, scitype, i, np.asarray(gT2)[:3].tolist(), np.asarray(eT)[:3].tolist())))
        if discs:
            return discs
        # ---------------- prediction
        n_before = len(doubles.LOG)
        Xf = None
        if X is not None and strategy == "recursive":
            hm = steps[-1]
            Xf = pd.DataFrame(
                {c: np.arange(hm, dtype=float) * 3.0 + 9000.0 * (j + 1) + 0.5 for j, c in enumerate(X.columns)},
                index=gen.int_index(int(y.index[-1]) + 1, hm, case["index_kind"]))
        pred_fh = None if case["fh_at_predict"] == "none" else (fh_fit if case.get("fh_abs") else gen.build_fh(steps, case["fh_kind"]))
        if strategy == "recursive" and case["fh_at_predict"] == "subset":
            pass
        p = sut(f.predict, pred_fh, Xf)
        if isinstance(p, Raised):
            return [unexpected(p, "predict")]
        calls = [e for e in doubles.LOG[n_before:] if e[0] == "predict"]
        last = [c[-wl:] for c in ([yv] + ([Xv[:, j] for j in range(Xv.shape[1])] if Xv is not None else []))]
        last = np.array(last, dtype=float)[None, :, :]  # (1, vars, wl)

        def shape_in(a):
            return a.reshape(1, -1) if tab else a

        exp_pred = []
        if strategy in ("direct", "multioutput"):
            exp_calls = [shape_in(last)] * (len(steps) if strategy == "direct" else 1)
            if len(calls) != len(exp_calls):
                discs.append(D("n_predict_calls", "%s: %d predict calls expected %d" % (strategy, len(calls), len(exp_calls))))
                return discs
            for i, (c, e) in enumerate(zip(calls, exp_calls)):
                if not arr_eq(c[3], e):
                    discs.append(D("predict_input_differs", "%s call %d got %s expected %s" % (strategy, i, c[3].tolist(), e.tolist())))
            if strategy == "direct":
                exp_pred = [float(doubles._lin(exp_calls[0].reshape(1, -1), 3)[0])] * len(steps)
                # each estimator must be the one fitted for that step
                ids = [c[2] for c in calls]
                log_fit_ids = [i_ for i_, e in enumerate(doubles.LOG) if e[0] == "fit" and i_ >= base_n]
                if ids != log_fit_ids:
                    discs.append(D("estimator_step_mismatch", "predict used fits %s expected %s" % (ids, log_fit_ids)))
            else:
                exp_pred = [float(doubles._lin(exp_calls[0].reshape(1, -1), 3 + 7 * k)[0]) for k in range(len(steps))]
                if calls and calls[0][2] is not None and calls[0][2] < base_n:
                    discs.append(D("estimator_step_mismatch", "multioutput predict used the regressor of an earlier fit (%s)" % calls[0][2]))
        elif strategy == "recursive":
            hm = steps[-1]
            buf = np.zeros((1, last.shape[1], wl + hm))
            buf[:, :, :wl] = last
            if Xf is not None:
                buf[:, 1:, wl:] = Xf.to_numpy().T
            outs = []
            if len(calls) != hm:
                discs.append(D("n_predict_calls", "recursive: %d predict calls expected %d" % (len(calls), hm)))
                return discs
            for i in range(hm):
                e = shape_in(buf[:, :, i: wl + i].copy())
                if not arr_eq(calls[i][3], e):
                    discs.append(D("predict_input_differs", "recursive call %d got %s expected %s"
                                   % (i, np.asarray(calls[i][3]).tolist(), e.tolist())))
                    return discs
                o = float(doubles._lin(e.reshape(1, -1), 3)[0])
                outs.append(o)
                buf[:, 0, wl + i] = o
            exp_pred = [outs[h - 1] for h in steps]
        else:  # dirrec
            buf = np.zeros((1, 1, wl + len(steps)))
            buf[:, 0, :wl] = yv[-wl:]
            if len(calls) != len(steps):
                discs.append(D("n_predict_calls", "dirrec: %d predict calls expected %d" % (len(calls), len(steps))))
                return discs
            log_fit_ids = [i_ for i_, e in enumerate(doubles.LOG) if e[0] == "fit" and i_ >= base_n]
            for i in range(len(steps)):
                e = shape_in(buf[:, :, : wl + i].copy())
                if not arr_eq(calls[i][3], e):
                    discs.append(D("predict_input_differs", "dirrec call %d got %s expected %s"
                                   % (i, np.asarray(calls[i][3]).tolist(), e.tolist())))
                    return discs
                if calls[i][2] != log_fit_ids[i]:
                    discs.append(D("estimator_step_mismatch", "dirrec call %d used fit %s" % (i, calls[i][2])))
                o = float(doubles._lin(e.reshape(1, -1), 3)[0])
                exp_pred.append(o)
                buf[:, 0, wl + i] = o
        if not isinstance(p, pd.Series):
            discs.append(D("predict_type", "predict returned %s" % type(p).__name__))
            return discs
        cutoff = int(y.index[-1])
        if [int(v) for v in p.index] != [cutoff + h for h in steps]:
            discs.append(D("forecast_index", "index %s expected %s" % (list(p.index), [cutoff + h for h in steps])))
        if not arr_eq(p.to_numpy(), np.array(exp_pred)):
            discs.append(D("forecast_values_not_step_outputs", "%s: got %s expected %s" % (strategy, p.tolist(), exp_pred)))
        back = case.get("revision")
        if back and X is None and not discs and n - back >= wl and not case.get("fh_abs"):
            # a batch of already known observations that ends before the end of the stored data
            # moves the cutoff back; the window fed at prediction time is the window_length
            # observations ending AT THE CUTOFF, not the tail of everything stored
            end = n - back
            chunk = y.iloc[max(0, end - 2): end]
            u = sut(f.update, chunk.copy(), None, False)
            if isinstance(u, Raised):
                return [unexpected(u, "update with a batch ending before the stored end")]
            ctx.label("cutoff_moved_back")
            n_before = len(doubles.LOG)
            p2 = sut(f.predict, pred_fh)
            if isinstance(p2, Raised):
                return [unexpected(p2, "predict after moving the cutoff back")]
            calls2 = [e for e in doubles.LOG[n_before:] if e[0] == "predict"]
            want = shape_in(np.array(yv[end - wl: end], dtype=float)[None, None, :])
            if not calls2 or not arr_eq(calls2[0][3], want):
                discs.append(D("predict_window_not_at_cutoff", "%s: cutoff moved to position %d of %d; first predict input %s expected %s"
                               % (strategy, end - 1, n, np.asarray(calls2[0][3]).tolist() if calls2 else None, want.tolist())))
            c2 = int(y.index[end - 1])
            if isinstance(p2, pd.Series) and [int(v) for v in p2.index] != [c2 + h for h in steps]:
                discs.append(D("forecast_index", "after moving the cutoff back: index %s expected %s" % (list(p2.index), [c2 + h for h in steps])))
        if X is not None and case.get("update_refit") and not discs and not case.get("fh_abs"):
            # new observations WITH their exogenous values arrive and the parameters are updated
            # (the default): the regressors are trained again, on the windows of everything
            # observed so far - target and exogenous columns alike
            k = case["update_refit"]
            y_new = pd.Series([float(yv[-1]) + 1.25 * (q + 1) for q in range(k)], index=gen.int_index(int(y.index[-1]) + 1, k, case["index_kind"]))
            X_new = pd.DataFrame({c_: [float(Xv[-1, jx]) - 0.75 * (q + 1) for q in range(k)] for jx, c_ in enumerate(X.columns)}, index=y_new.index)
            n_before = len(doubles.LOG)
            u = sut(f.update, y_new.copy(), X_new.copy())
            if isinstance(u, Raised):
                return [unexpected(u, "update with exogenous data")]
            ctx.label("update_with_exogenous_refit")
            fits2 = [e for e in doubles.LOG[n_before:] if e[0] == "fit"]
            want2 = expected_fits(np.concatenate([yv, y_new.to_numpy()]), np.concatenate([Xv, X_new.to_numpy()], axis=0))
            if len(fits2) != len(want2):
                discs.append(D("n_fit_calls", "%s after update: %d fit calls, expected %d" % (strategy, len(fits2), len(want2))))
            else:
                for i2, (got2, (eF2, eT2)) in enumerate(zip(fits2, want2)):
                    if not arr_eq(got2[2], eF2):
                        discs.append(D("train_features_differ_after_update", "%s/%s fit %d: got shape %s expected %s" % (
                            strategy, scitype, i2, np.shape(got2[2]), np.shape(eF2))))
                        break
            if discs:
                return discs
        rv = case.get("revise")
        if rv and X is None and not discs and not back and not case.get("fh_abs") and n >= wl + 1:
            # a batch that re-delivers the last known observations with corrected values plus one new
            # one: the window fed at prediction time holds the corrected values (later values win)
            k = min(rv, n - 1)
            labs = list(range(int(y.index[-1]) - k + 1, int(y.index[-1]) + 2))
            vals = [float(v) * 1.5 + 1000.0 for v in yv[-k:]] + [float(yv[-1]) + 7.0]
            batch = pd.Series(vals, index=gen.int_index(labs[0], len(labs), case["index_kind"]))
            u = sut(f.update, batch.copy(), None, False)
            if isinstance(u, Raised):
                return [unexpected(u, "update with a batch revising the last observations")]
            ctx.label("revised_observations")
            merged = np.concatenate([np.asarray(yv[: n - k], dtype=float), np.asarray(vals, dtype=float)])
            n_before = len(doubles.LOG)
            p3 = sut(f.predict, pred_fh)
            if isinstance(p3, Raised):
                return [unexpected(p3, "predict after a revising update")]
            calls3 = [e for e in doubles.LOG[n_before:] if e[0] == "predict"]
            want = shape_in(merged[-wl:][None, None, :])
            if not calls3 or not arr_eq(calls3[0][3], want):
                discs.append(D("predict_window_ignores_revised_values", "%s: first predict input %s expected %s"
                               % (strategy, np.asarray(calls3[0][3]).tolist() if calls3 else None, want.tolist())))
        return discs

    return oracle


# ------------------------------------------------------------- differential with real regressors
def _real_regressor(name, seed):
    from sklearn.linear_model import LinearRegression, Ridge
    from sklearn.neighbors import KNeighborsRegressor
    from sklearn.tree import DecisionTreeRegressor

    if name == "linear":
        return LinearRegression()
    if name == "ridge":
        return Ridge(alpha=0.5)
    if name == "knn":
        return KNeighborsRegressor(n_neighbors=1)
    return DecisionTreeRegressor(max_depth=3, random_state=seed)


def oracle_differential(case, ctx):
    from sklearn.base import clone

    discs = []
    y, X = build(case)
    wl, steps, strategy = case["wl"], case["fh"], case["strategy"]
    n = case["n"]
    if strategy == "dirrec":
        X = None
    reg = _real_regressor(case["reg"], case["vseed"] % 1000)
    f = make_reduction(doubles.ScalarOut(reg), strategy=strategy, window_length=wl)
    r = sut(f.fit, y, X, gen.build_fh(steps, "list"))
    if isinstance(r, Raised):
        return [D("valid_fit_rejected:%s" % r.type, r.msg)]
    yv = y.to_numpy()
    Xv = None if X is None else X.to_numpy()
    Xf = None
    if X is not None and strategy == "recursive":
        hm = steps[-1]
        Xf = pd.DataFrame({c: np.arange(hm, dtype=float) + 7000.0 * (j + 1) for j, c in enumerate(X.columns)},
                          index=gen.int_index(int(y.index[-1]) + 1, hm, case["index_kind"]))
    p = sut(f.predict, None, Xf)
    if isinstance(p, Raised):
        return [unexpected(p, "predict")]
    cols = [yv] + ([Xv[:, j] for j in range(Xv.shape[1])] if Xv is not None else [])
    last = np.concatenate([c[-wl:] for c in cols])[None, :]
    if strategy == "direct":
        F, T = ref_rows(yv, Xv, wl, steps, "tabular-regressor")
        exp = [float(clone(reg).fit(F, T[:, i]).predict(last)[0]) for i in range(len(steps))]
    elif strategy == "multioutput":
        F, T = ref_rows(yv, Xv, wl, steps, "tabular-regressor")
        exp = np.asarray(clone(reg).fit(F, T).predict(last)).ravel().tolist()
    elif strategy == "recursive":
        F, T = ref_rows(yv, Xv, wl, [1], "tabular-regressor")
        m = clone(reg).fit(F, T[:, 0])
        hm = steps[-1]
        nv = len(cols)
        buf = np.zeros((nv, wl + hm))
        for j, c in enumerate(cols):
            buf[j, :wl] = c[-wl:]
        if Xf is not None:
            buf[1:, wl:] = Xf.to_numpy().T
        outs = []
        for i in range(hm):
            o = float(m.predict(buf[:, i: wl + i].reshape(1, -1))[0])
            outs.append(o)
            buf[0, wl + i] = o
        exp = [outs[h - 1] for h in steps]
    else:
        F, T = ref_rows(yv, None, wl, steps, "tabular-regressor")
        buf = list(yv[-wl:])
        exp = []
        for i in range(len(steps)):
            Fi = np.column_stack([F, T[:, :i]])
            m = clone(reg).fit(Fi, T[:, i])
            o = float(m.predict(np.array(buf)[None, :])[0])
            exp.append(o)
            buf.append(o)
    ctx.label(strategy)
    ctx.label(case["reg"])
    gapped = steps != list(range(1, len(steps) + 1))
    ctx.mark_nontrivial(gapped or X is not None or (wl > 1 and steps[-1] > 1))
    got = np.asarray(p.to_numpy(), dtype=float)
    if got.shape != (len(steps),) or not np.allclose(got, exp, rtol=1e-9, atol=1e-9):
        discs.append(D("forecast_differs_from_reference_procedure", "%s/%s got %s expected %s" % (strategy, case["reg"], got.tolist(), exp)))
    return discs


@st.composite
def cases(draw, strategy=None, allow_exog=True, feasible_bias=9):
    wl = draw(st.integers(1, 8))
    fh = draw(gen.fh_steps(max_step=6, max_size=4))
    hm = 1 if strategy == "recursive" else fh[-1]
    if draw(st.integers(0, 9)) < feasible_bias:
        n = draw(st.integers(wl + max(hm, 1), 40))
    else:
        n = draw(st.integers(2, max(2, wl + max(hm, 1))))
    c = {
        "n": n, "wl": wl, "fh": fh,
        "vseed": draw(st.integers(0, 10 ** 6)),
        "start": draw(gen.index_start), "index_kind": draw(gen.index_kind),
        "fh_kind": draw(st.sampled_from(["list", "array", "fh", "int"])),
        "fh_at_predict": draw(st.sampled_from(["none", "same"])),
        "scitype_arg": draw(st.sampled_from(["infer", "explicit"])), "ts_dual": draw(st.booleans()), "revise": draw(st.sampled_from([0, 0, 1, 2, 3])),
        "dtype": draw(st.sampled_from(["float64", "float64", "int64"])),
        "prefit": draw(st.integers(0, 4)) == 0,
        "revision": draw(st.sampled_from([None, None, 1, 2, 3])), "fh_abs": draw(st.integers(0, 3)) == 0, "wl_via_set_params": draw(st.integers(0, 3)) == 0,
        "n_exog": 0, "update_refit": draw(st.sampled_from([0, 1, 2])), "entry": draw(st.sampled_from(["make_reduction", "make_reduction", "make_reduction", "ReducedForecaster", "ReducedRegressionForecaster", "class"])),
    }
    c["n_exog"] = draw(st.integers(0, 3)) if allow_exog else 0
    return c


@st.composite
def diff_cases(draw):
    strategy = draw(st.sampled_from(STRATS))
    c = draw(cases(strategy=strategy, allow_exog=(strategy != "dirrec"), feasible_bias=10))
    c["n"] = max(c["n"], c["wl"] + c["fh"][-1] + 2)
    c["strategy"] = strategy
    c["reg"] = draw(st.sampled_from(["linear", "ridge", "knn", "tree"]))
    return c


def subchecks():
    out = []
    for s in STRATS:
        for sci, short in (("tabular-regressor", "tab"), ("time-series-regressor", "ts")):
            out.append(SubCheck("%s_%s" % (s, short), oracle_recording(s, sci),
                                cases(strategy=s, allow_exog=(s != "dirrec")),
                                quick=1000, thorough=20000, shards_quick=1, shards_thorough=4))
    out.append(SubCheck("differential_real_regressors", oracle_differential, diff_cases(),
                        quick=800, thorough=6000, shards_quick=2, shards_thorough=8))
    return out


SELECTORS = {}
