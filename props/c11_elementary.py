"""C11 - elementary forecasters compute the textbook forecast (DESIGN 2/C11)."""
import math

import numpy as np
import pandas as pd
from hypothesis import strategies as st

from harness import gen
from harness.runner import D, Raised, SubCheck, sut, unexpected

PROPERTY_ID = "C11"
LEVEL = "exploration"
RULE = (
    "generated series (n 3..40, any integer index origin, NaNs for the mean strategies), "
    "strategy, seasonal period 1..8, window lengths including non-multiples of the period, "
    "horizons up to 3 seasons and in-sample steps with a full preceding window; polynomial "
    "degree 0..3 with/without intercept; statsmodels option sets. Oracle = reference formulas "
    "anchored at the end of the training series / numpy.linalg.lstsq / the wrapped statsmodels "
    "model used directly. non-trivial = seasonal with window not a multiple of sp, or horizon "
    "beyond one season, or in-sample steps, or non-zero index origin, or no intercept; distinct "
    "= distinct canonical JSON of the case"
)
ASSUMPTIONS = [
    "in-sample steps are only checked where a full window precedes the time point",
    "polynomial trend compared with rtol 1e-6 (degree <= 3, n <= 40); statsmodels "
    "differential with rtol 1e-9 (same optimiser on the same data)",
]

from sktime.forecasting.naive import NaiveForecaster  # noqa: E402
from sktime.forecasting.trend import PolynomialTrendForecaster  # noqa: E402


def build_y(case):
    vals = [np.nan if v is None else v for v in case["values"]]
    y = gen.build_series(vals, case["start"], case["index_kind"])
    if case.get("int_dtype") and not np.isnan(y.to_numpy()).any():
        # counts stored with an integer dtype (the formulas are those of the real numbers)
        y = pd.Series(np.round(y.to_numpy()).astype("int64"), index=y.index)
    return y


# ---------------------------------------------------------------- naive reference
def ref_naive(v, strategy, sp, w, h):
    """Forecast for step h >= 1 from observations v (end-anchored)."""
    n = len(v)
    T = n - 1
    if strategy == "last":
        if sp == 1:
            return v[T]
        return v[T + h - sp * math.ceil(h / sp)]
    if strategy == "mean":
        win_pos = list(range(n - w, n))
        if sp == 1:
            x = np.array([v[i] for i in win_pos])
        else:
            x = np.array([v[i] for i in win_pos if (i - (T + h)) % sp == 0])
        x = x[~np.isnan(x)]
        return float(np.mean(x)) if len(x) else float("nan")
    if strategy == "drift":
        return v[T] + h * (v[T] - v[T - w + 1]) / (w - 1)
    raise ValueError(strategy)


def eff_window(strategy, sp, w, n):
    if strategy == "last":
        return 1 if sp == 1 else sp
    return n if w is None else w


def oracle_naive(case, ctx):
    discs = []
    y = build_y(case)
    v = y.to_numpy()
    n = len(v)
    strategy, sp, w = case["strategy"], case["sp"], case["wl"]
    f = NaiveForecaster(strategy=strategy, sp=sp, window_length=w)
    if case.get("prefit"):
        # the same object was fitted before on a shorter prefix: a fit starts afresh
        k = max(eff_window(strategy, sp, w, n), min(n, 3)) if w is not None or strategy == "last" else max(sp + 1, n - case["prefit"])
        k = min(max(k, sp + 1, 3), n)
        sut(f.fit, y.iloc[:k])
        ctx.label("refit_same_object")
    r = sut(f.fit, y)
    if isinstance(r, Raised):
        return [D("valid_fit_rejected:%s" % r.type, "strategy=%s sp=%s wl=%s n=%d: %s" % (strategy, sp, w, n, r.msg))]
    ew = eff_window(strategy, sp, w, n)
    steps = case["fh"]
    oos = [h for h in steps if h > 0]
    ins = [h for h in steps if h <= 0]
    fharg = gen.build_fh(steps, case["fh_kind"])
    p = sut(f.predict, fharg)
    if isinstance(p, Raised):
        return [unexpected(p, "predict(%s)" % steps)]
    cutoff = int(y.index[-1])
    if not isinstance(p, pd.Series) or [int(i) for i in p.index] != [cutoff + h for h in steps]:
        return [D("forecast_index", "fh=%s index=%s" % (steps, list(getattr(p, "index", [])) ))]
    exp = []
    for h in steps:
        if h > 0:
            exp.append(ref_naive(v, strategy, sp, ew, h))
        else:
            # in-sample: same rule applied to the window ending one step earlier, horizon 1
            t = n - 1 + h
            exp.append(ref_naive(v[:t], strategy, sp, ew, 1))
    got = p.to_numpy(dtype=float)
    if not np.allclose(got, np.array(exp, dtype=float), rtol=1e-12, atol=1e-12, equal_nan=True):
        kind = "naive_%s%s%s" % ("seasonal_" if sp > 1 and strategy != "drift" else "", strategy,
                                 "_in_sample" if ins and not np.allclose(got[: len(ins)], exp[: len(ins)], rtol=1e-12, atol=1e-12, equal_nan=True) else "")
        discs.append(D(kind, "sp=%s wl=%s(eff %s) n=%d fh=%s values=%s: got %s expected %s"
                       % (sp, w, ew, n, steps, v.tolist(), got.tolist(), exp)))
    ctx.label(strategy)
    if sp > 1:
        ctx.label("seasonal")
    if ins:
        ctx.label("in_sample")
    ctx.mark_nontrivial(
        (sp > 1 and strategy == "mean" and ew % sp != 0) or (oos and max(oos) > sp > 1) or bool(ins)
        or case["start"] != 0 or bool(np.isnan(v).any())
    )
    if sp > 1 and strategy == "mean" and ew % sp != 0:
        ctx.label("window_not_multiple_of_sp")
    return discs


@st.composite
def naive_cases(draw, strategy, in_sample=False):
    # (the drift strategy is documented to ignore the seasonal periodicity: any value may be given)
    sp = draw(st.sampled_from([1, 1, 2, 3, 4, 5, 7, 8]))
    n = draw(st.integers(max(3, sp + 1), 40))
    if strategy == "last":
        # a window length may be given; the last-value strategies do not use it
        w = draw(st.one_of(st.none(), st.none(), st.integers(1, n)))
    elif strategy == "mean":
        w = draw(st.one_of(st.none(), st.integers(max(sp, 1), n)))
    else:
        w = draw(st.one_of(st.none(), st.integers(2, n)))
    vals = draw(gen.series_values(n, n, lo=-500.0, hi=1000.0))
    if strategy == "mean" and draw(st.booleans()):
        k = draw(st.integers(1, max(1, n // 4)))
        for i in draw(st.lists(st.integers(0, n - 1), min_size=k, max_size=k)):
            vals[i] = None
    ew = eff_window(strategy, sp, w, n)
    oos = draw(st.lists(st.integers(1, 3 * max(sp, 2) + 2), min_size=0 if in_sample else 1, max_size=5, unique=True))
    ins = []
    if in_sample and n - 1 - ew >= 0:
        # time points t = n-1+h with a full window before them: t - ew >= 0
        lo = ew - (n - 1)
        ins = draw(st.lists(st.integers(lo, 0), min_size=1, max_size=4, unique=True))
    steps = sorted(set(ins + oos))
    if not steps:
        steps = [1]
    return {
        "strategy": strategy, "sp": sp, "wl": w, "values": vals, "fh": steps,
        "start": draw(gen.index_start), "index_kind": draw(gen.index_kind),
        "fh_kind": draw(st.sampled_from(["list", "array", "fh"])),
        "prefit": draw(st.sampled_from([0, 0, 1, 3, 7])), "int_dtype": draw(st.integers(0, 3)) == 0,
    }


# ---------------------------------------------------------------- polynomial trend
def oracle_trend(case, ctx):
    discs = []
    y = build_y(case)
    v = y.to_numpy()
    n = len(v)
    deg, icpt = case["degree"], case["with_intercept"]
    f = PolynomialTrendForecaster(degree=deg, with_intercept=icpt)
    if case.get("prefit") and n - case["prefit"] >= deg + 2:
        sut(f.fit, y.iloc[: n - case["prefit"]])
    r = sut(f.fit, y)
    if isinstance(r, Raised):
        return [D("valid_fit_rejected:%s" % r.type, r.msg)]
    steps = case["fh"]
    p = sut(f.predict, gen.build_fh(steps, case["fh_kind"]))
    if isinstance(p, Raised):
        return [unexpected(p, "predict(%s)" % steps)]
    cutoff = int(y.index[-1])
    if not isinstance(p, pd.Series) or [int(i) for i in p.index] != [cutoff + h for h in steps]:
        return [D("forecast_index", "fh=%s index=%s" % (steps, list(getattr(p, "index", []))))]
    t = np.arange(n, dtype=float)
    powers = list(range(0 if icpt else 1, deg + 1))
    A = np.column_stack([t ** k for k in powers])
    coef, *_ = np.linalg.lstsq(A, v, rcond=None)
    tp = np.array([n - 1 + h for h in steps], dtype=float)
    exp = np.column_stack([tp ** k for k in powers]) @ coef
    got = p.to_numpy(dtype=float)
    scale = max(1.0, float(np.max(np.abs(v))))
    if not np.allclose(got, exp, rtol=1e-6, atol=1e-6 * scale):
        discs.append(D("polytrend", "degree=%d intercept=%s n=%d start=%d fh=%s: got %s expected %s"
                       % (deg, icpt, n, case["start"], steps, got.tolist(), exp.tolist())))
    m = case.get("moved") or 0
    if m and not discs:
        # new observations arrive without a re-fit: the same fitted polynomial, evaluated at
        # the time points now requested (steps from the moved cutoff)
        y_new = gen.build_series([float(v[-1]) + 0.5 * (j + 1) for j in range(m)], cutoff + 1, case["index_kind"])
        u = sut(f.update, y_new, None, False)
        if isinstance(u, Raised):
            return [unexpected(u, "update(update_params=False)")]
        p2 = sut(f.predict, gen.build_fh(steps, case["fh_kind"]))
        if isinstance(p2, Raised):
            return [unexpected(p2, "predict(%s) after update" % steps)]
        tp2 = np.array([n - 1 + m + h for h in steps], dtype=float)
        exp2 = np.column_stack([tp2 ** k for k in powers]) @ coef
        ctx.label("cutoff_moved_without_refit")
        if [int(i) for i in p2.index] != [cutoff + m + h for h in steps]:
            discs.append(D("forecast_index", "after update: fh=%s index=%s" % (steps, list(p2.index))))
        elif not np.allclose(p2.to_numpy(dtype=float), exp2, rtol=1e-6, atol=1e-6 * scale):
            discs.append(D("polytrend_after_update_without_refit", "degree=%d intercept=%s n=%d +%d fh=%s: got %s expected %s"
                           % (deg, icpt, n, m, steps, p2.tolist(), exp2.tolist())))
    mr = case.get("moved_refit") or 0
    if mr and not m and not discs:
        # new observations arrive and the parameters are updated (the default): the polynomial
        # is the least-squares fit over EVERYTHING observed, old and new
        y_new = gen.build_series([float(v[-1]) + 0.5 * (j + 1) - 0.07 * (j + 1) ** 2 for j in range(mr)], cutoff + 1, case["index_kind"])
        u = sut(f.update, y_new)
        if isinstance(u, Raised):
            return [unexpected(u, "update()")]
        steps3 = [h for h in steps if h > -(n + mr - 1)]
        p3 = sut(f.predict, gen.build_fh(steps3, case["fh_kind"]))
        if isinstance(p3, Raised):
            return [unexpected(p3, "predict(%s) after update" % steps3)]
        vv = np.concatenate([v.astype(float), y_new.to_numpy(dtype=float)])
        t3 = np.arange(len(vv), dtype=float)
        coef3, *_ = np.linalg.lstsq(np.column_stack([t3 ** k for k in powers]), vv, rcond=None)
        tp3 = np.array([len(vv) - 1 + h for h in steps3], dtype=float)
        exp3 = np.column_stack([tp3 ** k for k in powers]) @ coef3
        ctx.label("updated_with_refit")
        if [int(i) for i in p3.index] != [cutoff + mr + h for h in steps3]:
            discs.append(D("forecast_index", "after update: fh=%s index=%s" % (steps3, list(p3.index))))
        elif not np.allclose(p3.to_numpy(dtype=float), exp3, rtol=1e-6, atol=1e-6 * max(scale, float(np.max(np.abs(vv))))):
            discs.append(D("polytrend_after_update_with_refit", "degree=%d intercept=%s n=%d +%d fh=%s: got %s expected %s"
                           % (deg, icpt, n, mr, steps3, p3.tolist(), exp3.tolist())))
    ctx.label("degree=%d" % deg)
    ctx.mark_nontrivial((not icpt) or case["start"] != 0 or any(h <= 0 for h in steps))
    if not icpt:
        ctx.label("no_intercept")
    if case["start"] != 0:
        ctx.label("origin_nonzero")
    return discs


@st.composite
def trend_cases(draw):
    icpt = draw(st.booleans())
    deg = draw(st.integers(0 if icpt else 1, 3))
    n = draw(st.integers(deg + 3, 40))
    steps = draw(st.lists(st.integers(-(n - 1), 12), min_size=1, max_size=6, unique=True).map(sorted))
    return {
        "degree": deg, "with_intercept": icpt,
        "values": draw(gen.series_values(n, n, lo=-500.0, hi=1000.0)), "fh": steps,
        "start": draw(gen.index_start), "index_kind": draw(gen.index_kind),
        "fh_kind": draw(st.sampled_from(["list", "array", "fh"])),
        "prefit": draw(st.sampled_from([0, 0, 2, 5])), "moved": draw(st.sampled_from([0, 0, 1, 3])), "int_dtype": draw(st.integers(0, 3)) == 0,
        "moved_refit": draw(st.sampled_from([0, 2, 5])),
    }


# ---------------------------------------------------------------- statsmodels adapters
def oracle_statsmodels(case, ctx):
    discs = []
    y = build_y(case)
    n = len(y)
    kind = case["model"]
    steps = case["fh"]
    if kind == "expsmooth":
        from statsmodels.tsa.holtwinters import ExponentialSmoothing as SM

        from sktime.forecasting.exp_smoothing import ExponentialSmoothing

        o = case["opts"]
        extra = {"use_boxcox": o.get("use_boxcox"), "initialization_method": o.get("init", "estimated")}
        if extra["initialization_method"] == "known":
            extra["initial_level"] = float(y.iloc[0])
            if o["trend"]:
                extra["initial_trend"] = 0.5 if o["trend"] == "add" else 1.01
            if o["seasonal"]:
                extra["initial_seasonal"] = [0.25 * (j + 1) if o["seasonal"] == "add" else 1.0 + 0.01 * (j + 1) for j in range(o["sp"])]
        f = ExponentialSmoothing(trend=o["trend"], damped_trend=o["damped"], seasonal=o["seasonal"], sp=o["sp"], **extra)
        ref = sut(lambda: SM(pd.Series(y.to_numpy(), index=pd.RangeIndex(len(y))), trend=o["trend"],
                             damped_trend=o["damped"], seasonal=o["seasonal"], seasonal_periods=o["sp"], **extra).fit())
        ctx.label("use_boxcox=%r" % (o.get("use_boxcox"),))
        ctx.label("init=%s" % extra["initialization_method"])
    else:
        from statsmodels.tsa.exponential_smoothing.ets import ETSModel as SM

        from sktime.forecasting.ets import AutoETS

        o = case["opts"]
        init = o.get("init", "estimated")
        if init == "heuristic" and (len(y) < 10 or (o["seasonal"] and len(y) < 2 * (o["sp"] or 1) + 10)):
            init = "estimated"
        extra = {}
        if init == "known":
            # initial states given by the user (each its own value)
            extra["initial_level"] = float(y.iloc[0])
            if o["trend"]:
                extra["initial_trend"] = 0.75
            if o["seasonal"]:
                extra["initial_seasonal"] = [0.25 * (j + 1) if o["seasonal"] == "add" else 1.0 + 0.01 * (j + 1) for j in range(o["sp"])]
        f = AutoETS(error=o["error"], trend=o["trend"], damped_trend=o["damped"], seasonal=o["seasonal"],
                    sp=o["sp"] or 1, auto=False, initialization_method=init, **extra)
        ref = sut(lambda: SM(pd.Series(y.to_numpy(), index=pd.RangeIndex(len(y))), error=o["error"], trend=o["trend"],
                             damped_trend=o["damped"], seasonal=o["seasonal"], seasonal_periods=o["sp"] or 1,
                             initialization_method=init, **extra).fit(disp=False))
        ctx.label("init=%s" % init)
    if isinstance(ref, Raised):
        # statsmodels itself refuses this configuration: sktime must not return a forecast
        r = sut(lambda: f.fit(y).predict(steps))
        if not isinstance(r, Raised):
            discs.append(D("statsmodels_rejects_but_adapter_forecasts", "%s %s" % (kind, o)))
        ctx.mark_rejected()
        return discs
    r = sut(f.fit, y)
    if isinstance(r, Raised):
        return [D("valid_fit_rejected:%s" % r.type, "%s %s: %s" % (kind, o, r.msg))]
    p = sut(f.predict, gen.build_fh(steps, "list"))
    if isinstance(p, Raised):
        return [unexpected(p, "predict(%s)" % steps)]
    cutoff = int(y.index[-1])
    if [int(i) for i in p.index] != [cutoff + h for h in steps]:
        return [D("forecast_index", "fh=%s index=%s" % (steps, list(p.index)))]
    hmax = max([h for h in steps if h > 0] or [0])
    fc = np.asarray(ref.forecast(hmax)) if hmax else np.array([])
    # in-sample: the wrapped model's own in-sample prediction (statsmodels' predict and
    # fittedvalues differ for some damped multiplicative models; that is not sktime's doing)
    lo = min(steps)
    fitted = np.asarray(ref.predict(n - 1 + lo, n - 1)) if lo <= 0 else np.array([])
    exp = [fc[h - 1] if h > 0 else fitted[h - lo] for h in steps]
    got = p.to_numpy(dtype=float)
    if not np.allclose(got, exp, rtol=1e-9, atol=1e-9, equal_nan=True):
        discs.append(D("statsmodels_differential:%s" % kind, "%s start=%d fh=%s got %s expected %s"
                       % (o, case["start"], steps, got.tolist(), list(map(float, exp)))))
    ctx.label(kind)
    ctx.mark_nontrivial(case["start"] != 0 or any(h <= 0 for h in steps) or o.get("seasonal") is not None
                        or steps != list(range(1, len(steps) + 1)))
    m = case.get("moved") or 0
    if m and not discs:
        # new observations arrive and only the cutoff moves on (update_params=False): the
        # fitted smoothing model is the same, so the forecast for a time point is the model's
        # forecast for THAT time point, now m steps further from the end of the fitted data
        vals = [float(v) for v in case["values"]]
        more = gen.build_series(vals + vals[:m][::-1], case["start"], case["index_kind"]).iloc[n:]
        u = sut(f.update, more, None, False)
        if isinstance(u, Raised):
            return discs + [unexpected(u, "update(update_params=False)")]
        steps2 = [h for h in steps if h > -(n + m - 1)]
        p2 = sut(f.predict, gen.build_fh(steps2, "list"))
        if isinstance(p2, Raised):
            return discs + [unexpected(p2, "predict(%s) after update(update_params=False)" % steps2)]
        cutoff2 = int(more.index[-1])
        if [int(i) for i in p2.index] != [cutoff2 + h for h in steps2]:
            return discs + [D("forecast_index", "after %d new observations fh=%s index=%s" % (m, steps2, list(p2.index)))]
        pos = [n - 1 + m + h for h in steps2]
        whole = np.asarray(ref.predict(min(pos), max(pos)), dtype=float)
        exp2 = [whole[q - min(pos)] for q in pos]
        got2 = p2.to_numpy(dtype=float)
        ctx.label("cutoff_moved_without_refit")
        if not np.allclose(got2, exp2, rtol=1e-9, atol=1e-9, equal_nan=True):
            discs.append(D("statsmodels_differential_after_moving_cutoff:%s" % kind, "%s start=%d %d new observations fh=%s got %s expected %s"
                           % (o, case["start"], m, steps2, got2.tolist(), list(map(float, exp2)))))
    return discs


@st.composite
def sm_cases(draw):
    model = draw(st.sampled_from(["expsmooth", "ets"]))
    seasonal = draw(st.sampled_from([None, None, "add", "mul"]))
    sp = draw(st.sampled_from([2, 3, 4])) if seasonal else None
    trend = draw(st.sampled_from([None, "add", "add", "mul"] if model == "expsmooth" else [None, "add"]))
    damped = draw(st.booleans()) if trend else False
    n = draw(st.integers(max(12, 4 * (sp or 1)), 36))
    vals = draw(gen.series_values(n, n, lo=20.0, hi=200.0))
    steps = draw(st.lists(st.integers(-(n - 1), 9), min_size=1, max_size=5, unique=True).map(sorted))
    opts = {"trend": trend, "damped": damped, "seasonal": seasonal, "sp": sp,
            "use_boxcox": draw(st.sampled_from([None, None, False, True, 0.0, 0, 0.5])) if model == "expsmooth" else None,
            "init": draw(st.sampled_from(["estimated", "estimated", "heuristic", "known"]))}
    if model == "ets":
        opts["error"] = draw(st.sampled_from(["add", "mul"]))
    return {"model": model, "opts": opts, "values": vals, "fh": steps, "moved": draw(st.sampled_from([0, 0, 1, 2, 5])),
            "start": draw(gen.index_start), "index_kind": draw(gen.index_kind)}


def subchecks():
    out = []
    for s in ("last", "mean", "drift"):
        out.append(SubCheck("naive_%s" % s, oracle_naive, naive_cases(s), quick=1000, thorough=20000,
                            shards_quick=1, shards_thorough=4))
        out.append(SubCheck("naive_%s_in_sample" % s, oracle_naive, naive_cases(s, in_sample=True), quick=300,
                            thorough=6000, shards_quick=1, shards_thorough=4))
    out.append(SubCheck("polytrend", oracle_trend, trend_cases(), quick=600, thorough=10000, shards_quick=2,
                        shards_thorough=4))
    out.append(SubCheck("statsmodels_differential", oracle_statsmodels, sm_cases(), quick=400, thorough=2000,
                        shards_quick=4, shards_thorough=16))
    return out


def _sel_seasonal_mean_misaligned(case, disc):
    n = len(case["values"])
    ew = eff_window(case["strategy"], case["sp"], case["wl"], n)
    return case["strategy"] == "mean" and case["sp"] > 1 and ew % case["sp"] != 0


SELECTORS = {"seasonal_mean_window_not_multiple_of_sp": _sel_seasonal_mean_misaligned}
