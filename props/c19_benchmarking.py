"""C19 - benchmark runs are exactly-once, resumable and store what was predicted (DESIGN 2/C19).

Fault enumeration: for each generated configuration EVERY k from 1 to the total number of
fit / predict calls is made to fail, the run is resumed with new Orchestrator / Results
objects, and the store is compared with the uninterrupted run.
"""
import os
import shutil

import numpy as np
import pandas as pd
from hypothesis import strategies as st

from harness import doubles, load
from harness.runner import D, Raised, SubCheck, sut, unexpected

PROPERTY_ID = "C19"
LEVEL = "fault_enumeration"
RULE = (
    "generated orchestration configurations (1-2 in-memory datasets, 1-3 strategies built on "
    "counting / failing deterministic estimators, k-fold / single split / pre-split CV, "
    "in-memory or on-disk store, predict_on_train, save_fitted_strategies); for on-disk stores "
    "every crash point k = 1..(number of fit+predict calls) is enumerated: run until the fault, "
    "snapshot the store byte-wise, resume with new objects and overwriting disabled, compare "
    "with the uninterrupted run (files, prediction contents, what load_predictions enumerates, "
    "call counters), then an identical run (0 fits) and an overwriting run (all fits). "
    "non-trivial = a configuration with >= 1 crash point after a completed record; distinct = "
    "distinct configuration (the number of enumerated crash points is reported under "
    "subchecks.orchestration.counters.crash_points)"
)
ASSUMPTIONS = [
    "crash points are 'the k-th fit or predict call raises' (as the property defines them)",
    "scratch stores live under /verif/.work/c19 and are removed after each case",
]

import logging  # noqa: E402

from sklearn.model_selection import KFold  # noqa: E402

logging.disable(logging.CRITICAL)  # the orchestrator logs every skipped unit

from sktime.benchmarking.data import RAMDataset  # noqa: E402
from sktime.benchmarking.orchestration import Orchestrator  # noqa: E402
from sktime.benchmarking.results import HDDResults, RAMResults  # noqa: E402
from sktime.benchmarking.strategies import TSCStrategy, TSRStrategy  # noqa: E402
from sktime.benchmarking.tasks import TSCTask, TSRTask  # noqa: E402
from sktime.series_as_features.model_selection import PresplitFilesCV, SingleSplit  # noqa: E402


def make_data(case, d):
    n = case["n_inst"]
    rng = np.random.RandomState(case["seed"] + 17 * d)
    cls = rng.randint(0, 2, size=n)
    cls[0], cls[1] = 0, 1
    cls[-1], cls[-2] = 0, 1  # both classes in every fold of the generated splitters
    rows = [pd.Series(np.round(rng.normal(size=6) * 0.3 + 4.0 * cls[i] + 0.1 * i, 4)) for i in range(n)]
    if case["task"] == "tsc":
        target = np.array(["lo", "hi"])[cls]
    else:
        target = np.round(2.0 * cls + 0.05 * np.arange(n), 4)
    if case.get("int_target"):
        # a target stored with an integer dtype: counts for regression, numbered classes
        target = (3 * cls + np.arange(n) % 4).astype("int64") if case["task"] != "tsc" else np.array([3, 7], dtype="int64")[cls]
    df = pd.DataFrame({"dim_0": rows, "target": target})
    more = case.get("more_features") or 0
    if more and not case.get("extra_column"):
        # several feature columns whose names are not in alphabetical order; the task's default
        # feature set is every column but the target, in the order of the data set
        names = ["zeta", "dim_10", "Alpha"][:more]
        cols = {"dim_2": rows}
        for q, nm in enumerate(names):
            cols[nm] = [pd.Series(np.round(rng.normal(size=6) * (1.0 + q) + 3.0 * ((i + q) % 3), 4)) for i in range(n)]
        cols["target"] = target
        df = pd.DataFrame(cols)
    if case.get("extra_column"):
        # a column that is NOT a feature of the task (explicit feature list)
        extra = [pd.Series(np.round(rng.normal(size=6) * 5.0 + 20.0 * (i % 3), 4)) for i in range(n)]
        df = pd.DataFrame({"aux": extra, "dim_0": rows, "target": target})
    if case["cv"]["kind"] == "presplit":
        k = max(2, n // 2)
        lay = case.get("presplit_layout") or "train_first"
        if lay == "train_first":
            df.index = ["train"] * k + ["test"] * (n - k)
        elif lay == "test_first":
            df.index = ["test"] * (n - k) + ["train"] * k
        elif lay == "single_test":
            # a part that holds exactly one instance
            df.index = ["train"] * (n - 1) + ["test"]
        else:
            # the pre-defined parts are told apart by the row labels, wherever the rows are
            df.index = ["train" if (i % 3 != 1) else "test" for i in range(n)]
    return df


def make_cv(c):
    if c["kind"] == "kfold":
        return KFold(n_splits=c["k"])
    if c["kind"] == "single":
        return SingleSplit(test_size=0.34, random_state=c["rs"], shuffle=c.get("shuffle", True))
    return PresplitFilesCV()


def make_parts(case):
    datasets = [RAMDataset(make_data(case, d), name="ds%d" % d) for d in range(case["n_datasets"])]
    Task = TSCTask if case["task"] == "tsc" else TSRTask
    tasks = [Task(target="target", features=["dim_0"]) if case.get("extra_column") else Task(target="target") for _ in datasets]
    Strat, Est = (TSCStrategy, doubles.CountingClassifier) if case["task"] == "tsc" else (TSRStrategy, doubles.CountingRegressor)
    strategies = [Strat(Est(tag="s%d" % j, shift=0.35 * j), name="strat%d" % j) for j in range(case["n_strategies"])]
    return tasks, datasets, strategies


def run(case, results, **kw):
    tasks, datasets, strategies = make_parts(case)
    orch = Orchestrator(tasks, datasets, strategies, make_cv(case["cv"]), results)
    return orch.fit_predict(predict_on_train=case["predict_on_train"], save_fitted_strategies=case["save_fitted"], **kw)


def expected_records(case):
    """Independent recomputation: clone of the estimator fitted on each fold."""
    from sklearn.base import clone

    out = {}
    for d in range(case["n_datasets"]):
        df = make_data(case, d)
        X, y = df[["dim_0"] if "dim_0" in df.columns else [c for c in df.columns if c != "target"]], df["target"]
        for j in range(case["n_strategies"]):
            Est = doubles.CountingClassifier if case["task"] == "tsc" else doubles.CountingRegressor
            if case["cv"]["kind"] == "presplit":
                folds = [(np.flatnonzero(np.asarray(df.index) == "train"), np.flatnonzero(np.asarray(df.index) == "test"))]
            elif case["cv"]["kind"] == "single":
                # the documented meaning: scikit-learn's train_test_split of the row positions
                from sklearn.model_selection import train_test_split

                folds = [tuple(train_test_split(np.arange(len(df)), test_size=0.34, random_state=case["cv"]["rs"],
                                                shuffle=case["cv"].get("shuffle", True)))]
            else:
                folds = list(make_cv(case["cv"]).split(df, y))
            for fold, (tr, te) in enumerate(folds):
                e = clone(Est(tag="ref", shift=0.35 * j)).fit(X.iloc[tr], y.iloc[tr])
                out[("strat%d" % j, "ds%d" % d, fold, "test")] = (np.asarray(te), y.iloc[te].to_numpy(), e.predict(X.iloc[te]))
                if case["predict_on_train"]:
                    out[("strat%d" % j, "ds%d" % d, fold, "train")] = (np.asarray(tr), y.iloc[tr].to_numpy(), e.predict(X.iloc[tr]))
    return out


def listing(path):
    """{relative file: bytes} of the store, read by the harness."""
    out = {}
    for root, _, files in os.walk(path):
        for f in files:
            p = os.path.join(root, f)
            with open(p, "rb") as fh:
                out[os.path.relpath(p, path)] = fh.read()
    return out


def records_on_disk(path):
    """Prediction records parsed from the csv files: key -> (index, y_true, y_pred)."""
    out = {}
    for rel in sorted(listing(path)):
        if not rel.endswith(".csv"):
            continue
        parts = rel.split(os.sep)
        strat, ds, fname = parts[0], parts[1], parts[2][:-4]
        stem, part, fold = fname.rsplit("_", 2)
        df = pd.read_csv(os.path.join(path, rel))
        out[(strat, ds, int(fold), part)] = (df["index"].to_numpy(), df["y_true"].to_numpy(), df["y_pred"].to_numpy())
    return out


def same_records(got, exp, what):
    discs = []
    if set(got) != set(exp):
        discs.append(D("record_set_differs:%s" % what, "missing %s unexpected %s" % (sorted(set(exp) - set(got))[:4], sorted(set(got) - set(exp))[:4])))
        return discs
    for k in sorted(exp):
        gi, gt, gp = got[k]
        ei, et, ep = exp[k]
        ok = (np.array_equal(np.asarray(gi), np.asarray(ei)) and _vals_eq(gt, et) and _vals_eq(gp, ep))
        if not ok:
            discs.append(D("record_content_differs:%s" % what, "%s: index %s/%s y_pred %s/%s (shapes %s/%s)" % (
                k, np.atleast_1d(gi).tolist()[:4], np.atleast_1d(ei).tolist()[:4], np.atleast_1d(gp).tolist()[:4], np.atleast_1d(ep).tolist()[:4],
                np.shape(gp), np.shape(ep))))
            break
    return discs


def _vals_eq(a, b):
    a, b = np.asarray(a), np.asarray(b)
    if a.shape != b.shape:
        return False
    if a.dtype.kind in "fiu" and b.dtype.kind in "fiu":
        return np.allclose(a.astype(float), b.astype(float), rtol=1e-9, atol=1e-9)
    return [str(x) for x in a] == [str(x) for x in b]


def loaded_records(results, case):
    out = {}
    n_folds = {"kfold": case["cv"].get("k", 1), "single": 1, "presplit": 1}[case["cv"]["kind"]]
    for fold in range(n_folds):
        for part in (["test", "train"] if case["predict_on_train"] else ["test"]):
            for w in results.load_predictions(cv_fold=fold, train_or_test=part):
                key = (w.strategy_name, w.dataset_name, fold, part)
                if key in out:
                    DUPS.append(key)
                out[key] = (w.index, w.y_true, w.y_pred)
    return out


DUPS = []  # records that load_predictions enumerated more than once (since the last dup_discs call)


def dup_discs(what):
    d = [D("record_enumerated_more_than_once:%s" % what, "load_predictions yields %s %d times" % (k, 1 + DUPS.count(k))) for k in sorted(set(DUPS))[:1]]
    del DUPS[:]
    return d


def units(case):
    n_folds = {"kfold": case["cv"].get("k", 1), "single": 1, "presplit": 1}[case["cv"]["kind"]]
    return [("strat%d" % j, "ds%d" % d, f) for d in range(case["n_datasets"]) for j in range(case["n_strategies"]) for f in range(n_folds)]


def complete_units(files, case):
    done = set()
    for (s, d, f) in units(case):
        base = os.path.join(s, d, "%s_%%s_%d" % (s, f))
        ok = (base % "test") + ".csv" in files
        if case["predict_on_train"]:
            ok = ok and (base % "train") + ".csv" in files
        if case["save_fitted"]:
            ok = ok and (base % "train") + ".pickle" in files
        if ok:
            done.add((s, d, f))
    return done


def oracle(case, ctx):
    discs = []
    exp = expected_records(case)
    ctx.label(case["store"])
    ctx.label(case["cv"]["kind"])
    ctx.label(case["task"])
    if case.get("int_target"):
        ctx.label("integer_typed_target")
    if case["store"] == "ram":
        doubles.reset_calls()
        res = RAMResults()
        c2 = dict(case, save_fitted=False)
        r = sut(run, c2, res)
        ctx.mark_nontrivial(True)
        if isinstance(r, Raised):
            return [D("run_raised:%s@%s" % (r.type, r.where), r.msg)]
        got = sut(loaded_records, res, case)
        if isinstance(got, Raised):
            return [D("load_predictions_raised:ram:%s" % got.type, got.msg)]
        return same_records(got, exp, "ram") + dup_discs("ram")
    root = load.work_dir("c19", "p%d" % os.getpid())
    try:
        # ---------- uninterrupted reference run
        ref = os.path.join(root, "ref")
        shutil.rmtree(ref, ignore_errors=True)
        os.makedirs(ref)
        doubles.reset_calls()
        res = HDDResults(ref)
        r = sut(run, case, res)
        if isinstance(r, Raised):
            return [D("run_raised:%s@%s" % (r.type, r.where), r.msg)]
        K = doubles.CALLS["n"]
        n_fits_full = doubles.CALLS["fits"]
        if n_fits_full != len(units(case)):
            discs.append(D("fit_count", "%d fits for %d (strategy, dataset, fold) units" % (n_fits_full, len(units(case)))))
        ref_files = listing(ref)
        ref_records = records_on_disk(ref)
        discs += same_records(ref_records, exp, "disk")
        got = sut(loaded_records, HDDResults(ref), case) if False else sut(loaded_records, res, case)
        if isinstance(got, Raised):
            discs.append(D("load_predictions_raised:disk:%s" % got.type, got.msg))
        else:
            discs += same_records(got, exp, "disk_readback") + dup_discs("disk_readback")
        if case["save_fitted"]:
            want = {os.path.join(s, d, "%s_train_%d.pickle" % (s, f)) for (s, d, f) in units(case)}
            have = {k for k in ref_files if k.endswith(".pickle") and k != "results.pickle"}
            if have != want:
                discs.append(D("fitted_strategy_files", "missing %s unexpected %s" % (sorted(want - have)[:3], sorted(have - want)[:3])))
        if discs:
            return discs
        ref_enum = set((k[0], k[1]) for k in got)
        # ---------- identical second run: no fits; overwriting run: all fits
        doubles.reset_calls()
        res_again = HDDResults(ref)
        r = sut(run, case, res_again)
        if isinstance(r, Raised):
            discs.append(D("rerun_raised:%s@%s" % (r.type, r.where), r.msg))
        elif doubles.CALLS["fits"] != 0:
            discs.append(D("identical_rerun_recomputes", "%d fits in a second identical run" % doubles.CALLS["fits"]))
        elif listing(ref).keys() != ref_files.keys() or any(listing(ref)[k] != ref_files[k] for k in ref_files if k != "results.pickle"):
            discs.append(D("identical_rerun_modifies_store", ""))
        else:
            # what the store of the repeated run enumerates: the same records, each once
            ctx.label("readback_after_rerun")
            g2 = sut(loaded_records, res_again, case)
            if isinstance(g2, Raised):
                discs.append(D("load_predictions_raised:rerun:%s" % g2.type, g2.msg))
            else:
                discs += same_records(g2, exp, "readback_after_rerun") + dup_discs("readback_after_rerun")
        doubles.reset_calls()
        r = sut(run, case, HDDResults(ref), overwrite_predictions=True, overwrite_fitted_strategies=case["save_fitted"])
        if isinstance(r, Raised):
            discs.append(D("overwrite_run_raised:%s@%s" % (r.type, r.where), r.msg))
        elif doubles.CALLS["fits"] != n_fits_full:
            discs.append(D("overwrite_run_skips", "%d fits with overwriting enabled, expected %d" % (doubles.CALLS["fits"], n_fits_full)))
        else:
            discs += same_records(records_on_disk(ref), exp, "disk_after_overwriting_run")
        if discs:
            return discs
        # ---------- a sequence of runs whose options grow (nothing is overwritten): the second
        # run produces exactly what is missing and the store ends up like an uninterrupted run
        if case["predict_on_train"] or case["save_fitted"]:
            d = os.path.join(root, "seq")
            shutil.rmtree(d, ignore_errors=True)
            os.makedirs(d)
            first = dict(case, predict_on_train=False, save_fitted=False)
            r1 = sut(run, first, HDDResults(d))
            if isinstance(r1, Raised):
                return [D("run_raised:%s@%s" % (r1.type, r1.where), "first run of an option sequence: " + r1.msg)]
            files1 = listing(d)
            doubles.reset_calls()
            r2 = sut(run, case, HDDResults(d))
            ctx.label("option_sequence")
            if isinstance(r2, Raised):
                discs.append(D("option_sequence_run_raised:%s@%s" % (r2.type, r2.where), r2.msg))
            else:
                files2 = listing(d)
                changed = [k for k in files1 if k.endswith(".csv") and files2.get(k) != files1[k]]
                if changed:
                    discs.append(D("option_sequence_modifies_completed_file", "%s changed or vanished in the second run" % changed[:3]))
                discs += same_records(records_on_disk(d), exp, "disk_after_option_sequence")
                if case["save_fitted"]:
                    want = {os.path.join(s_, d_, "%s_train_%d.pickle" % (s_, f_)) for (s_, d_, f_) in units(case)}
                    have = {k for k in files2 if k.endswith(".pickle") and k != "results.pickle"}
                    if have != want:
                        discs.append(D("option_sequence_fitted_strategy_files", "missing %s unexpected %s" % (sorted(want - have)[:3], sorted(have - want)[:3])))
                doubles.reset_calls()
                r3 = sut(run, case, HDDResults(d))
                if not isinstance(r3, Raised) and doubles.CALLS["fits"] != 0:
                    discs.append(D("identical_rerun_recomputes", "%d fits in a run repeating the last options of a sequence" % doubles.CALLS["fits"]))
            if discs:
                return discs
        # ---------- every crash point
        ks = range(1, K + 1) if case["crash_points"] == "all" else sorted(set(1 + (k % K) for k in case["crash_points"]))
        n_nontrivial = 0
        for k in ks:
            d = os.path.join(root, "crash")
            shutil.rmtree(d, ignore_errors=True)
            os.makedirs(d)
            doubles.reset_calls(fail_at=k)
            r = sut(run, case, HDDResults(d))
            if not (isinstance(r, Raised) and isinstance(r.exc, doubles.InjectedFault)):
                discs.append(D("fault_not_propagated", "crash point %d/%d: run returned %r" % (k, K, r)))
                break
            snap = listing(d)
            done = complete_units(snap, case)
            if any(f.endswith(".csv") for f in snap):
                n_nontrivial += 1
            ctx.count("crash_points")
            # resume with new objects, overwriting disabled
            doubles.reset_calls()
            res2 = HDDResults(d)
            r = sut(run, case, res2)
            if isinstance(r, Raised):
                discs.append(D("resume_raised:%s@%s" % (r.type, r.where), "crash point %d/%d: %s" % (k, K, r.msg)))
                break
            after = listing(d)
            for f, b in snap.items():
                if f != "results.pickle" and after.get(f) != b:
                    discs.append(D("resume_modifies_completed_file", "crash point %d/%d: %s changed or vanished" % (k, K, f)))
                    break
            missing_units = len(units(case)) - len(done)
            if doubles.CALLS["fits"] != missing_units:
                discs.append(D("resume_fit_count", "crash point %d/%d: %d fits on resume, %d units were incomplete (%d complete)"
                               % (k, K, doubles.CALLS["fits"], missing_units, len(done))))
            if set(after) - {"results.pickle"} != set(ref_files) - {"results.pickle"}:
                discs.append(D("resumed_store_file_set_differs", "crash point %d/%d: missing %s unexpected %s"
                               % (k, K, sorted(set(ref_files) - set(after))[:3], sorted(set(after) - set(ref_files))[:3])))
            else:
                discs += same_records(records_on_disk(d), ref_records, "resumed(k=%d)" % k)
            lr = sut(loaded_records, res2, case)
            discs += dup_discs("resumed(k=%d)" % k)
            if isinstance(lr, Raised):
                discs.append(D("load_predictions_raised:resumed:%s" % lr.type, "crash point %d/%d: %s" % (k, K, lr.msg)))
            elif set((a, b) for (a, b, _, _) in lr) != ref_enum:
                discs.append(D("resumed_store_enumerates_fewer_strategies", "crash point %d/%d: load_predictions of the resumed store enumerates %s, uninterrupted run %s"
                               % (k, K, sorted(set((a, b) for (a, b, _, _) in lr)), sorted(ref_enum))))
            if discs:
                break
            # a further identical run performs no fits
            doubles.reset_calls()
            r = sut(run, case, HDDResults(d))
            if isinstance(r, Raised) or doubles.CALLS["fits"] != 0:
                discs.append(D("run_after_resume_recomputes", "crash point %d/%d: %r fits=%d" % (k, K, r, doubles.CALLS["fits"])))
                break
        ctx.mark_nontrivial(n_nontrivial > 0)
        ctx.count("crash_points_after_a_completed_record", n_nontrivial)
        return discs
    finally:
        shutil.rmtree(root, ignore_errors=True)


@st.composite
def cases(draw, all_points=True):
    cvk = draw(st.sampled_from(["kfold", "kfold", "single", "presplit"]))
    cv = {"kind": cvk}
    if cvk == "kfold":
        cv["k"] = draw(st.integers(2, 3))
    if cvk == "single":
        cv["rs"] = draw(st.integers(0, 100))
        cv["shuffle"] = draw(st.booleans())
    layout = draw(st.sampled_from(["train_first", "interleaved", "test_first", "single_test"]))
    store = draw(st.sampled_from(["disk", "disk", "disk", "ram"]))
    return {
        "task": draw(st.sampled_from(["tsc", "tsc", "tsr"])), "n_datasets": draw(st.integers(1, 2)),
        "n_strategies": draw(st.integers(1, 3)), "n_inst": draw(st.sampled_from([8, 8, 10, 12, 9, 11])), "seed": draw(st.integers(0, 10 ** 5)),
        "cv": cv, "store": store, "predict_on_train": draw(st.sampled_from([True, True, False])),
        "save_fitted": draw(st.booleans()) if store == "disk" else False,
        "crash_points": "all", "extra_column": draw(st.booleans()), "more_features": draw(st.sampled_from([0, 0, 1, 2, 3])),
        "presplit_layout": layout, "int_target": draw(st.integers(0, 2)) == 0,
    }


def enum_stores_and_splits(tier):
    """Both stores x every way of splitting (k-fold incl. leave-one-out, ordered / shuffled single
    split, the four pre-split layouts) x both tasks, on one small fixed configuration."""
    cvs = [{"kind": "kfold", "k": 2}, {"kind": "kfold", "k": 3}, {"kind": "kfold", "k": 6},
           {"kind": "single", "rs": 5, "shuffle": True}, {"kind": "single", "rs": 0, "shuffle": False}]
    cvs += [{"kind": "presplit", "_layout": lay} for lay in ("train_first", "interleaved", "test_first", "single_test")]
    for store in ("ram", "disk"):
        for cv in cvs:
            for task in ("tsc", "tsr"):
                yield {"task": task, "n_datasets": 1, "n_strategies": 2, "n_inst": 6, "seed": 77, "cv": {k: v for k, v in cv.items() if k != "_layout"},
                       "store": store, "predict_on_train": True, "save_fitted": False, "crash_points": [1, 4], "extra_column": False,
                       "more_features": 2 if task == "tsc" else 0, "presplit_layout": cv.get("_layout", "train_first")}
                if cv in cvs[:1] + cvs[3:4]:
                    yield {"task": task, "n_datasets": 1, "n_strategies": 2, "n_inst": 6, "seed": 78, "cv": dict(cv), "store": store,
                           "predict_on_train": True, "save_fitted": False, "crash_points": [1], "extra_column": False, "more_features": 0,
                           "presplit_layout": "train_first", "int_target": True}


def subchecks():
    return [SubCheck("stores_and_splits", oracle, enumerate_cases=enum_stores_and_splits, shards_quick=12, shards_thorough=12, exhaustive=True),
            SubCheck("orchestration", oracle, cases(), quick=56, thorough=400, shards_quick=14, shards_thorough=16,
                     budget_quick=150.0)]


SELECTORS = {}
