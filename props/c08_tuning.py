"""C08 - tuning selects, exposes and refits the best candidate (DESIGN 2/C08)."""
import numpy as np
import pandas as pd
from hypothesis import strategies as st
from sklearn.base import clone
from sklearn.model_selection import ParameterGrid, ParameterSampler

from harness import gen
from harness.runner import D, Raised, SubCheck, sut, unexpected
from props.c07_evaluate import build_cv, build_metric, raw_metric

PROPERTY_ID = "C08"
LEVEL = "exploration"
RULE = (
    "generated (base forecaster: naive / trend / transformed-target pipeline with nested "
    "names / multiplexer; parameter grids incl. lists of dicts with different keys, or "
    "distributions with n_iter and random_state; splitter; series scaled by 1e-4..1e4; loss and greater-is-better "
    "metrics; refit on/off; evaluation strategy); oracle = sklearn's ParameterGrid / "
    "ParameterSampler candidates, an independent evaluate() per candidate whose scores are "
    "recomputed with the plain metric function written in the harness, best index in the "
    "metric's direction, refit delegation vs a directly constructed forecaster, NotFittedError "
    "without refit. non-trivial = >= 3 candidates with pairwise different scores; distinct = "
    "distinct JSON of the case"
)
ASSUMPTIONS = ["candidate scores compared with rtol 1e-12 (same operations)", "ties in the best score: any tied candidate is accepted"]

from sktime.exceptions import NotFittedError  # noqa: E402
from sktime.forecasting.compose import MultiplexForecaster, TransformedTargetForecaster  # noqa: E402
from sktime.forecasting.model_evaluation import evaluate  # noqa: E402
from sktime.forecasting.model_selection import (  # noqa: E402
    ForecastingGridSearchCV,
    ForecastingRandomizedSearchCV,
)
from sktime.forecasting.naive import NaiveForecaster  # noqa: E402
from sktime.forecasting.trend import PolynomialTrendForecaster  # noqa: E402
from sktime.transformations.series.detrend import Deseasonalizer  # noqa: E402


def build_base(kind):
    if kind == "naive":
        return NaiveForecaster()
    if kind == "naive_mean6":
        # a base forecaster configured away from the defaults: a candidate may set a parameter
        # back to None
        return NaiveForecaster(strategy="mean", window_length=6)
    if kind == "theta":
        from sktime.forecasting.theta import ThetaForecaster

        return ThetaForecaster(deseasonalize=False)
    if kind == "trend":
        return PolynomialTrendForecaster()
    if kind == "pipeline":
        return TransformedTargetForecaster([("deseasonalizer", Deseasonalizer()), ("forecaster", NaiveForecaster())])
    if kind == "multiplex":
        return MultiplexForecaster([("naive", NaiveForecaster()), ("trend", PolynomialTrendForecaster())],
                                   selected_forecaster="naive")
    if kind == "reduce":
        from sklearn.linear_model import LinearRegression

        from harness.doubles import ScalarOut
        from sktime.forecasting.compose import make_reduction

        return make_reduction(ScalarOut(LinearRegression()), strategy="recursive", window_length=3)
    raise ValueError(kind)


PREFIT_GRIDS = {
    "naive": {"strategy": ["mean", "drift"], "window_length": [3, 5]},
    "trend": {"degree": [2, 3], "with_intercept": [False]},
    "naive_mean6": {"strategy": ["drift"], "window_length": [3, 4]},
    "theta": {"initial_level": [0.15, 0.45]},
    "pipeline": {"deseasonalizer__sp": [2], "forecaster__strategy": ["mean", "drift"], "forecaster__window_length": [3, 4]},
    "multiplex": {"selected_forecaster": ["trend", "naive"], "trend__degree": [2, 3], "naive__strategy": ["drift"], "naive__window_length": [4]},
    "reduce": {"window_length": [4, 6]},
}


def oracle(case, ctx):
    discs = []
    n = case["n"]
    # series of any magnitude: scale-dependent losses of small series are tiny numbers, and
    # the ranking must still follow them exactly
    scale = case.get("scale", 1.0)
    vals = [(v + ((i * 37) % 11) / 7.0) * scale for i, v in enumerate(case["values"][:n])]
    if scale != 1.0:
        ctx.label("scale_%g" % scale)
    y = gen.build_series(vals, case["start"], case["index_kind"])
    y_new = gen.build_series([v * 1.01 + 0.3 * scale for v in vals[:3]], case["start"] + n, case["index_kind"])
    X = X_new = None
    if case["base"] == "reduce":
        # exogenous data the forecaster really uses (lagged columns of X enter every regression)
        X = pd.DataFrame({"x": [(3.0 * ((i * 7) % 5) + 0.5 * i) * scale for i in range(n)]}, index=y.index)
        X_new = pd.DataFrame({"x": [2.5 * scale, 4.0 * scale, 1.5 * scale]}, index=y_new.index)
        ctx.label("with_exogenous_data")
    metric = build_metric(case["metric"])
    gib = bool(metric.greater_is_better)
    tuner_metric = None if case["metric"] == "default" else metric  # a tuner built without a metric scores with sMAPE
    grid = case["grid"]
    strategy = case["strategy"]
    base = build_base(case["base"])
    if case["search"] == "grid":
        cands = list(ParameterGrid(grid))
        tuner = ForecastingGridSearchCV(base, cv=build_cv(case["cv"]), param_grid=grid, scoring=tuner_metric,
                                        strategy=strategy, refit=case["refit"])
    else:
        # the seed as an integer or as a generator object (one stream: the candidates that are
        # scored are the candidates that are reported)
        inst = case.get("rs_kind") == "instance"
        cands = list(ParameterSampler(grid, case["n_iter"], random_state=np.random.RandomState(case["rs"]) if inst else case["rs"]))
        tuner = ForecastingRandomizedSearchCV(base, cv=build_cv(case["cv"]), param_distributions=grid,
                                              n_iter=case["n_iter"], random_state=np.random.RandomState(case["rs"]) if inst else case["rs"],
                                              scoring=tuner_metric, strategy=strategy, refit=case["refit"])
        if inst:
            ctx.label("random_state_is_a_generator_object")
    col = "test_" + metric.name
    exp_scores = []
    for p in cands:
        f = build_base(case["base"]).set_params(**p)
        r = sut(evaluate, f, build_cv(case["cv"]), y, X, strategy=strategy, scoring=metric)
        if isinstance(r, Raised):
            # evaluate refuses a candidate the generator builds to be valid (it never does on the unchanged tree)
            return [D("independent_evaluate_raised:%s@%s" % (r.type, r.where), "candidate %s: %s" % (p, r.msg))]
        # ... and what the scores ARE: the plain metric function on each fold's forecasts
        # (return_data gives y_test / y_pred of the same run)
        rd = sut(evaluate, build_base(case["base"]).set_params(**p), build_cv(case["cv"]), y, X, strategy=strategy, scoring=metric, return_data=True)
        if isinstance(rd, Raised):
            return [D("independent_evaluate_raised:%s@%s" % (rd.type, rd.where), "candidate %s (return_data=True): %s" % (p, rd.msg))]
        raw = raw_metric(case["metric"])
        raw_mean = float(np.mean([raw(a, b) for a, b in zip(rd["y_test"], rd["y_pred"])]))
        if not np.isclose(raw_mean, float(r[col].mean()), rtol=1e-9, atol=1e-300, equal_nan=True):
            return [D("score_is_not_the_metric_function:%s" % ("greater_is_better" if gib else "loss"),
                      "%s candidate %s: evaluate reports %r, the metric function gives %r" % (case["metric"], p, float(r[col].mean()), raw_mean))]
        exp_scores.append(float(r[col].mean()))
    fh = case["cv"]["fh"]
    yc = y.copy()
    if case.get("prefit") and case["metric"] != "nanflat" and not (case["search"] != "grid" and case.get("rs_kind") == "instance"):  # (a search whose scores are all undefined has no winner)
        # the same tuner object (and the caller's base forecaster inside it) ran another search
        # before: other data, another grid that sets parameters this search does not mention.
        # Every candidate of this search still starts from the base forecaster as configured.
        g0 = PREFIT_GRIDS[case["base"]]
        y0 = gen.build_series(vals[::-1], case["start"], case["index_kind"])
        tuner.set_params(**{("param_grid" if case["search"] == "grid" else "param_distributions"): g0})
        r0 = sut(tuner.fit, y0, None if X is None else X.copy(), fh)
        if isinstance(r0, Raised):
            return [D("tuner_fit_raised:%s@%s" % (r0.type, r0.where), "%s earlier search with grid=%s: %s" % (case["base"], g0, r0.msg))]
        tuner.set_params(**{("param_grid" if case["search"] == "grid" else "param_distributions"): grid})
        ctx.label("tuner_searched_before")
    # the horizon given to the tuner's fit is the one the winner is refitted for; it need not
    # be the horizon the candidates are scored on (the splitter's)
    fit_fh = case["fit_fh"] if case.get("fit_fh") and X is None else fh
    if fit_fh != fh:
        ctx.label("fit_horizon_differs_from_splitter_horizon")
    r = sut(tuner.fit, yc, None if X is None else X.copy(), fit_fh)
    ctx.label(case["base"])
    ctx.label(case["search"])
    ctx.label("greater_is_better" if gib else "loss")
    ctx.label("refit" if case["refit"] else "no_refit")
    if all(np.isnan(v) for v in exp_scores):
        # no candidate has a defined score: nothing the property pins down
        ctx.mark_rejected()
        return []
    if any(np.isnan(v) for v in exp_scores):
        ctx.label("some_candidate_scores_undefined")
    if any(np.isinf(v) for v in exp_scores) and not all(np.isinf(v) for v in exp_scores):
        ctx.label("some_candidate_scores_infinite")
    distinct = len(set(np.round(exp_scores, 12))) == len(exp_scores)
    ctx.mark_nontrivial(len(cands) >= 3 and distinct)
    if isinstance(r, Raised):
        return [D("tuner_fit_raised:%s@%s" % (r.type, r.where), "%s grid=%s: %s" % (case["base"], grid, r.msg))]
    if r is not tuner:
        discs.append(D("fit_not_self", ""))
    res = sut(lambda: tuner.cv_results_)
    if isinstance(res, Raised) or not isinstance(res, pd.DataFrame):
        return discs + [D("cv_results_missing", repr(res))]
    if len(res) != len(cands):
        return discs + [D("cv_results_rows", "%d rows for %d candidates" % (len(res), len(cands)))]
    mcol = "mean_" + col
    for i, (p, s) in enumerate(zip(cands, exp_scores)):
        if dict(res.loc[i, "params"]) != dict(p):
            discs.append(D("cv_results_params", "row %d params %s expected %s" % (i, res.loc[i, "params"], p)))
        elif not np.isclose(float(res.loc[i, mcol]), s, rtol=1e-12, atol=0, equal_nan=True):
            discs.append(D("cv_results_score", "%s grid=%s row %d (%s): tuner %r independent evaluate %r"
                           % (case["base"], grid, i, p, float(res.loc[i, mcol]), s)))
    if discs:
        return discs
    # the rank column orders the candidates exactly like their mean scores (ties share a rank)
    rcol = "rank_" + col
    if rcol in res.columns:
        want_rank = pd.Series(exp_scores).rank(ascending=not gib).tolist()
        got_rank = [float(v) for v in res[rcol].tolist()]
        if not np.array_equal(np.array(got_rank), np.array(want_rank), equal_nan=True):
            discs.append(D("rank_column_not_order_of_scores:%s" % ("greater_is_better" if gib else "loss"),
                           "scores %s ranks %s expected %s" % (exp_scores, got_rank, want_rank)))
            return discs
    best = np.nanmax(exp_scores) if gib else np.nanmin(exp_scores)  # an undefined score is never the best
    tied = [i for i, s in enumerate(exp_scores) if np.isclose(s, best, rtol=1e-12, atol=0)]
    bi = sut(lambda: int(tuner.best_index_))
    if isinstance(bi, Raised) or bi not in tied:
        discs.append(D("best_index_not_best:%s" % ("greater_is_better" if gib else "loss"),
                       "scores %s best_index_ %r best candidates %s" % (exp_scores, bi, tied)))
        return discs
    if not np.isclose(float(tuner.best_score_), exp_scores[bi], rtol=1e-12, atol=0):
        discs.append(D("best_score", "best_score_ %r row %r" % (tuner.best_score_, exp_scores[bi])))
    if dict(tuner.best_params_) != dict(cands[bi]):
        discs.append(D("best_params", "best_params_ %s row %s" % (tuner.best_params_, cands[bi])))
    if case["refit"]:
        direct = build_base(case["base"]).set_params(**cands[bi])
        direct.fit(y, None if X is None else X.copy(), fit_fh)
        if X is None:
            # asked without a horizon, both answer for the horizon given to fit
            discs += _same_pred(sut(tuner.predict), sut(direct.predict), "predict without horizon")

        def xf(c):
            # future values of the exogenous variable for every step up to the furthest one
            if X is None:
                return None
            hm = max(fh)
            return pd.DataFrame({"x": [(1.5 + 0.25 * j) * scale for j in range(hm)]}, index=gen.int_index(int(c) + 1, hm, case["index_kind"]))

        a, b = sut(tuner.predict, fh, xf(direct.cutoff)), sut(direct.predict, fh, xf(direct.cutoff))
        discs += _same_pred(a, b, "predict")
        if case["base"] == "theta" and not discs:
            # prediction intervals at the requested coverage are those of the best forecaster
            for alpha in (0.05, 0.2, 0.5):
                ia = sut(lambda: tuner.predict(fh, return_pred_int=True, alpha=alpha))
                ib = sut(lambda: direct.predict(fh, return_pred_int=True, alpha=alpha))
                if isinstance(ib, Raised):
                    break
                ctx.label("prediction_intervals")
                if isinstance(ia, Raised) or not (isinstance(ia, tuple) and len(ia) == 2 and np.allclose(
                        np.asarray(ia[1], dtype=float), np.asarray(ib[1], dtype=float), rtol=1e-10, atol=1e-12)):
                    discs.append(D("tuner_differs_from_direct:prediction_interval", "alpha=%s: tuner %s direct %s" % (
                        alpha, ia if isinstance(ia, Raised) else np.asarray(ia[1], dtype=float).tolist(), np.asarray(ib[1], dtype=float).tolist())))
                    break
        c = sut(lambda: tuner.cutoff)
        if isinstance(c, Raised) or int(c) != int(direct.cutoff):
            discs.append(D("tuner_cutoff", "%r vs %r" % (c, direct.cutoff)))
        u = sut(tuner.update, y_new.copy(), None if X_new is None else X_new.copy())
        if isinstance(u, Raised):
            discs.append(D("tuner_update_raised:%s" % u.type, u.msg))
        else:
            direct.update(y_new.copy(), None if X_new is None else X_new.copy(), update_params=False)
            discs += _same_pred(sut(tuner.predict, fh, xf(direct.cutoff)), sut(direct.predict, fh, xf(direct.cutoff)), "predict after update")
            c = sut(lambda: tuner.cutoff)
            if isinstance(c, Raised) or int(c) != int(direct.cutoff):
                discs.append(D("tuner_cutoff_after_update", "%r vs %r" % (c, direct.cutoff)))
    else:
        from sktime.forecasting.model_selection import SlidingWindowSplitter

        calls = {
            "predict": lambda: tuner.predict(fh),
            "update": lambda: tuner.update(y_new.copy()),
            "update_predict": lambda: tuner.update_predict(y_new.copy(), SlidingWindowSplitter(fh=1, window_length=1)),
            "update_predict_single": lambda: tuner.update_predict_single(y_new.copy(), fh),
            "cutoff": lambda: tuner.cutoff,
        }
        for name, fn in calls.items():
            r2 = sut(fn)
            if not (isinstance(r2, Raised) and r2.is_a(NotFittedError)):
                discs.append(D("no_refit_guard:%s" % name, "refit=False: %s -> %r" % (name, r2)))
    if not y.equals(yc):
        discs.append(D("caller_data_modified", ""))
    return discs


def _same_pred(a, b, what):
    if isinstance(b, Raised):
        return [D("directly_built_forecaster_raised:%s:%s@%s" % (what.replace(" ", "_"), b.type, b.where), b.msg)]
    if isinstance(a, Raised):
        return [D("tuner_%s_raised:%s" % (what.replace(" ", "_"), a.type), a.msg)]
    if list(a.index) != list(b.index) or not np.allclose(a.to_numpy(dtype=float), b.to_numpy(dtype=float), rtol=1e-12, atol=0, equal_nan=True):
        return [D("tuner_differs_from_direct:%s" % what.replace(" ", "_"), "tuner %s direct %s" % (a.tolist(), b.tolist()))]
    return []


def _subset(values, min_size=1):
    return st.lists(st.sampled_from(values), min_size=min_size, max_size=len(values), unique=True)


@st.composite
def grids(draw, base, search):
    if base == "naive":
        mode = draw(st.integers(0, 3)) if search == "grid" else draw(st.integers(0, 1))
        if mode == 0:
            return {"strategy": draw(_subset(["last", "mean", "drift"], 2))}
        if mode == 1:
            return {"strategy": draw(_subset(["mean", "drift"])), "window_length": draw(_subset([2, 3, 4, 6], 2))}
        if mode == 2:
            # list of dicts with different keys: later sub-grids must not inherit earlier settings
            return [{"strategy": ["last"], "sp": draw(_subset([2, 3, 4]))},
                    {"strategy": draw(_subset(["mean", "drift"])), "window_length": draw(_subset([3, 4, 6]))}]
        return [{"strategy": ["mean"], "sp": draw(_subset([2, 3])), "window_length": [6]},
                {"strategy": ["last", "mean"]}]
    if base == "theta":
        return {"initial_level": draw(_subset([0.1, 0.3, 0.6, 0.9], 2))}
    if base == "naive_mean6":
        return {"window_length": [None] + draw(_subset([2, 3, 4], 1)), **({"strategy": draw(_subset(["mean", "drift"], 1))} if draw(st.booleans()) else {})}
    if base == "trend":
        return dict({"degree": draw(_subset([0, 1, 2, 3], 2))}, **({"with_intercept": [True]} if draw(st.booleans()) else {}))
    if base == "reduce":
        return {"window_length": draw(_subset([2, 3, 4, 5], 2))}
    if base == "pipeline":
        return {"deseasonalizer__sp": draw(_subset([1, 2, 3], 1)),
                "deseasonalizer__model": draw(_subset(["additive", "multiplicative"])),
                "forecaster__strategy": draw(_subset(["last", "mean", "drift"]))}
    g = {"selected_forecaster": draw(_subset(["naive", "trend"], 2))}
    if draw(st.booleans()):
        g["naive__strategy"] = draw(_subset(["last", "mean"], 2))
    if draw(st.booleans()):
        g["trend__degree"] = draw(_subset([1, 2], 1))
    return g


@st.composite
def cases(draw):
    base = draw(st.sampled_from(["naive", "naive", "naive_mean6", "trend", "pipeline", "multiplex", "reduce", "theta"]))
    search = draw(st.sampled_from(["grid", "grid", "random"]))
    grid = draw(grids(base, search))
    fh = draw(gen.fh_steps(max_step=3, max_size=2))
    fit_fh = draw(st.one_of(st.none(), st.none(), gen.fh_steps(max_step=5, max_size=3)))
    wl = draw(st.integers(9, 14))
    n = draw(st.integers(wl + fh[-1] + 2, wl + fh[-1] + 12))
    cv = {"kind": draw(st.sampled_from(["expanding", "sliding", "single"])), "fh": fh, "wl": wl,
          "step": draw(st.integers(1, 4))}
    return {
        "base": base, "search": search, "grid": grid, "cv": cv, "n": n,
        "n_iter": draw(st.integers(1, 6)), "rs": draw(st.integers(0, 10 ** 6)),
        "values": draw(gen.series_values(n, n, lo=5.0, hi=300.0)),
        "start": draw(gen.index_start), "index_kind": draw(gen.index_kind),
        "metric": draw(st.sampled_from(["smape", "mape_asym", "mse", "mse", "ratio", "ratio", "nanflat", "default", "infover", "negmse", "negmse"])),
        "refit": draw(st.sampled_from([True, True, False])),
        "strategy": draw(st.sampled_from(["refit", "refit", "update"])),
        "scale": draw(st.sampled_from([1.0, 1.0, 1e-6, 1e-4, 1e-3, 1e4])),
        "prefit": draw(st.integers(0, 2)) == 0, "rs_kind": draw(st.sampled_from(["int", "instance"])),
        "fit_fh": fit_fh,
    }


def subchecks():
    return [SubCheck("tuning", oracle, cases(), quick=1200, thorough=12000, shards_quick=12, shards_thorough=16)]


SELECTORS = {}
