"""C15 - panel container conversions are lossless and mutually consistent (DESIGN 2/C15)."""
import numpy as np
import pandas as pd
from hypothesis import strategies as st

from harness.runner import D, Raised, SubCheck, sut, unexpected

PROPERTY_ID = "C15"
LEVEL = "exploration"
RULE = (
    "generated panels (1..6 instances, 1..4 variables - up to 12 with default names -, 2..12 "
    "time points, arbitrary finite floats, arbitrary unique string/int column names or "
    "defaults, Series or array cells, default, shifted, unsorted or string instance labels); from each of the six "
    "representations (built by harness code) ALL conversion paths of length <= 3 are run; "
    "every intermediate result is decoded by independent reader code to (3-D array, names) "
    "and compared exactly with the original (the long table orders variables by identifier; "
    "names are compared while every hop carries names); plus the nestedness predicates and "
    "check_X coercions. non-trivial = >= 2 variables with names not in sorted order, or a "
    "path of length 3; distinct = distinct JSON of the case"
)
ASSUMPTIONS = ["cells carry the default time index 0..t-1 on the generic conversion paths; per-instance time labels are followed through nested <-> multi-index and nested -> long only", "a long table read back orders instances by their identifier, like variables; every other path keeps the order of appearance", "2-D table -> nested exists for a single variable only"]

from sktime.utils import data_processing as dp  # noqa: E402
from sktime.utils.validation.panel import check_X  # noqa: E402

IX, TX = "inst", "tp"


# ------------------------------------------------------------------ harness-side builders / decoders
def build_nested(A, names, cells, inst_index):
    n, c, t = A.shape
    data = {}
    for j in range(c):
        data[names[j]] = [pd.Series(A[i, j].copy()) if cells == "series" else A[i, j].copy() for i in range(n)]
    return pd.DataFrame(data, index=pd.Index(inst_index))


def build_mi(A, names, inst_index):
    n, c, t = A.shape
    idx = pd.MultiIndex.from_product([list(inst_index), range(t)], names=[IX, TX])
    return pd.DataFrame({names[j]: A[:, j, :].reshape(-1) for j in range(c)}, index=idx)


def build_long(A, names, inst_index):
    n, c, t = A.shape
    rows = []
    for j in range(c):
        for i in range(n):
            for k in range(t):
                rows.append((inst_index[i], k, names[j], A[i, j, k]))
    return pd.DataFrame(rows, columns=["case_id", "reading_id", "dim_id", "value"])


def dec_nested(X):
    n, c = X.shape
    out = np.array([[np.asarray(X.iloc[i, j], dtype=float) for j in range(c)] for i in range(n)])
    return out, list(X.columns), list(X.index)


def dec_mi(X):
    lev0 = X.index.get_level_values(0)
    insts = list(pd.unique(lev0))
    out = []
    for i in insts:
        sub = X[lev0 == i]
        out.append(sub.to_numpy(dtype=float).T)
    return np.array(out), list(X.columns), insts


def dec_long(L):
    cols = list(L.columns)
    ci, ti, di, vi = cols[0], cols[1], cols[2], cols[3]
    insts = list(pd.unique(L[ci]))
    dims = list(pd.unique(L[di]))
    tps = sorted(pd.unique(L[ti]))
    out = np.full((len(insts), len(dims), len(tps)), np.nan)
    for row in L.itertuples(index=False):
        out[insts.index(row[0]), dims.index(row[2]), tps.index(row[1])] = row[3]
    return out, dims, insts


def dec_2d(T, c):
    arr = np.asarray(T, dtype=float)
    n = arr.shape[0]
    return (arr.reshape(n, c, arr.shape[1] // c), (list(T.columns) if isinstance(T, pd.DataFrame) else None),
            (list(T.index) if isinstance(T, pd.DataFrame) else None))


# ------------------------------------------------------------------ conversion graph
def _rows(X):
    """Row labels handed to from_2d_array_to_nested: the table's own, or 5, 6, ... for a bare array."""
    return X.index if isinstance(X, pd.DataFrame) else pd.Index(range(5, 5 + len(X)))


def edges(c):
    E = {
        "A3": [("Ns", lambda X, nm: dp.from_3d_numpy_to_nested(X, column_names=nm)),
               ("Na", lambda X, nm: dp.from_3d_numpy_to_nested(X, column_names=nm, cells_as_numpy=True)),
               ("MI", lambda X, nm: dp.from_3d_numpy_to_multi_index(X, instance_index=IX, time_index=TX, column_names=nm)),
               ("T2", lambda X, nm: dp.from_3d_numpy_to_2d_array(X))],
        "Ns": [("A3", lambda X, nm: dp.from_nested_to_3d_numpy(X)),
               ("MI", lambda X, nm: dp.from_nested_to_multi_index(X, instance_index=IX, time_index=TX)),
               ("L", lambda X, nm: dp.from_nested_to_long(X, "case_id", "reading_id", "dim_id")),
               ("T2", lambda X, nm: dp.from_nested_to_2d_array(X))],
        "MI": [("A3", lambda X, nm: dp.from_multi_index_to_3d_numpy(X, instance_index=IX, time_index=TX)),
               ("Ns", lambda X, nm: dp.from_multi_index_to_nested(X, instance_index=IX)),
               ("Na", lambda X, nm: dp.from_multi_index_to_nested(X, instance_index=IX, cells_as_numpy=True))],
        "L": [("Ns", lambda X, nm: dp.from_long_to_nested(X))],
        "T2": [],
    }
    E["Na"] = [("A3", E["Ns"][0][1]), ("MI", E["Ns"][1][1]), ("T2", E["Ns"][3][1])]
    if c == 1:
        E["T2"] = [("Ns", lambda X, nm: dp.from_2d_array_to_nested(np.asarray(X))),
                   ("Na", lambda X, nm: dp.from_2d_array_to_nested(np.asarray(X), cells_as_numpy=True)),
                   # the optional arguments: the table's own row labels, a column name, time labels
                   ("Ns", lambda X, nm: dp.from_2d_array_to_nested(X, index=_rows(X), columns=["v"]), _rows),
                   ("Na", lambda X, nm: dp.from_2d_array_to_nested(X, index=list(_rows(X)), cells_as_numpy=True), _rows),
                   ("Ns", lambda X, nm: dp.from_2d_array_to_nested(X, index=_rows(X), time_index=np.arange(3, 3 + X.shape[1])), _rows)]
    return E


def decode(kind, obj, c):
    if kind in ("Ns", "Na"):
        if not isinstance(obj, pd.DataFrame):
            raise TypeError("nested result is %s" % type(obj).__name__)
        for v in obj.to_numpy().ravel():
            if not isinstance(v, pd.Series if kind == "Ns" else np.ndarray):
                raise TypeError("cell of %s is %s" % (kind, type(v).__name__))
        return dec_nested(obj)
    if kind == "A3":
        a = np.asarray(obj, dtype=float)
        if a.ndim != 3:
            raise TypeError("3-D array has ndim %d" % a.ndim)
        return a, None, None
    if kind == "MI":
        return dec_mi(obj)
    if kind == "L":
        return dec_long(obj)
    return dec_2d(obj, c)


def oracle(case, ctx):
    discs = []
    A = np.array(case["values"], dtype=float)
    n, c, t = A.shape
    names = case["names"] if case["names"] is not None else ["var_%d" % j for j in range(c)]
    inst = list(range(case["inst_start"], case["inst_start"] + n))
    if case.get("inst_order"):
        # instance labels that are not in ascending order (a shuffled or filtered panel):
        # instance order means order of appearance, not order of the labels
        order = sorted(range(n), key=lambda i: (case["inst_order"][i % len(case["inst_order"])], i))
        inst = [inst[order.index(i)] for i in range(n)]
        if case.get("inst_str"):
            inst = ["i%s" % chr(ord("a") + (v - case["inst_start"])) for v in inst]
        if inst != sorted(inst):
            ctx.label("instance_labels_not_sorted")
    starts = {
        "A3": A.copy(), "Ns": build_nested(A, names, "series", inst), "Na": build_nested(A, names, "array", inst),
        "MI": build_mi(A, names, inst), "L": build_long(A, names, inst),
    }
    E = edges(c)
    unsorted_names = names != sorted(names, key=lambda v: (str(type(v)), v))
    ctx.mark_nontrivial(c >= 2 and unsorted_names)
    ctx.label("c=%d" % c)
    if case["names"] is None:
        ctx.label("default_names")
    n_paths = 0

    def state_after(kind, A_exp, names_exp):
        return A_exp, names_exp

    def walk(kind, obj, A_exp, names_exp, path, depth, inst_exp=None):
        nonlocal n_paths
        if len(discs) >= 1 or depth == 0:
            return
        for edge in E[kind]:
            to, fn = edge[0], edge[1]
            r = sut(fn, obj, names_exp if (kind == "A3" and names_exp is not None) else (case["names"] if kind == "A3" else None))
            p = path + [to]
            n_paths += 1
            if isinstance(r, Raised):
                discs.append(D("conversion_raised:%s->%s:%s" % (kind, to, r.type), "path %s: %s" % ("->".join(p), r.msg)))
                return
            # expectation
            A2, nm2 = A_exp, names_exp
            if kind == "L":
                # the long table orders variables by their identifier and carries no column names
                cur = names_exp if names_exp is not None else list(range(c))
                order = sorted(range(c), key=lambda j: cur[j])
                A2 = A_exp[:, order, :]
                nm2 = None
                # ... and, being an unordered relation keyed by identifiers, is read back in the
                # order of the instance identifiers as well
                labs = inst_exp if inst_exp is not None else list(range(A_exp.shape[0]))
                iorder = sorted(range(len(labs)), key=lambda i: labs[i])
                A2 = A2[iorder, :, :]
            if to in ("A3", "T2"):
                nm2 = None
            elif kind == "A3":
                nm2 = case["names"]  # names passed to the conversion (None -> defaults)
            d = sut(decode, to, r, c)
            if isinstance(d, Raised):
                discs.append(D("malformed_result:%s->%s" % (kind, to), "path %s: %r" % ("->".join(p), d)))
                return
            got, gnames, ginst = d
            # instance labels are pinned down only where the caller passes them explicitly
            # (from_2d_array_to_nested(index=...): "row index of the transformed DataFrame")
            if ginst is not None and len(edge) == 3:
                want_inst = list(edge[2](obj))
                if [str(v) for v in ginst] != [str(v) for v in want_inst]:
                    discs.append(D("instance_labels_differ:%s->%s" % (kind, to), "path %s: instance labels %s expected %s"
                                   % ("->".join(p), ginst, want_inst)))
                    return
            if got.shape != A2.shape or not np.array_equal(got, A2):
                discs.append(D("values_differ:%s->%s" % (kind, to), "path %s names=%s: got %s expected %s"
                               % ("->".join(p), names, got.tolist(), A2.tolist())))
                return
            if to in ("Ns", "Na", "MI", "L"):
                if kind == "A3":
                    want = nm2 if nm2 is not None else ["var_%d" % j for j in range(c)]  # documented default
                elif kind in ("L", "T2"):
                    want = None  # no names were carried: the new names are not pinned down by the property
                else:
                    want = nm2
                if want is not None and [str(x) for x in gnames] != [str(x) for x in want]:
                    discs.append(D("names_differ:%s->%s" % (kind, to), "path %s: names %s expected %s" % ("->".join(p), gnames, want)))
                    return
                nm2 = list(gnames)
            walk(to, r, A2, nm2, p, depth - 1, ginst)

    for s, obj in starts.items():
        walk(s, obj, A, (names if s != "A3" else None), [s], 3, None if s == "A3" else inst)
        if discs:
            break
    if not discs:
        # a multi-index frame that is a row selection of a bigger panel (one CV fold, a filter):
        # pandas keeps the unused level values, the panel is the rows that are there
        extra = [("x%d" % j) if isinstance(inst[0], str) else (max(inst) + 1 + j) for j in range(2)]
        big = build_mi(np.concatenate([A, A[:1] * 0.5 + 1.0, A[:1] * 2.0 - 3.0], axis=0), names, list(inst) + extra)
        sub = big[big.index.get_level_values(0).isin(list(inst))]
        ctx.label("multi_index_row_selection")
        walk("MI", sub, A, names, ["MI(selection)"], 2, inst)
    ctx.count("paths", n_paths)
    # predicates
    flat = pd.DataFrame(A[:, 0, :])
    mixed = build_nested(A, names, "series", inst)
    mixed["__flat__"] = np.arange(n, dtype=float)
    checks = [
        ("is_nested(nested series)", sut(dp.is_nested_dataframe, starts["Ns"]), True),
        ("is_nested(nested arrays)", sut(dp.is_nested_dataframe, starts["Na"]), True),
        ("is_nested(flat)", sut(dp.is_nested_dataframe, flat), False),
        ("is_nested(3d array)", sut(dp.is_nested_dataframe, A), False),
        ("is_nested(mixed)", sut(dp.is_nested_dataframe, mixed), True),
        ("are_columns_nested(mixed)", sut(lambda: [bool(v) for v in dp.are_columns_nested(mixed)]), [True] * c + [False]),
        ("are_columns_nested(flat)", sut(lambda: [bool(v) for v in dp.are_columns_nested(flat)]), [False] * t),
    ]
    # cells that hold other Python containers (a tuple, a list, a string) are not series-valued
    other = pd.DataFrame({"span": [(i, i + 2) for i in range(n)], "tags": [["a", "b"][: 1 + i % 2] for i in range(n)], "name": ["s%d" % i for i in range(n)]})
    checks += [
        ("is_nested(tuple / list / string cells)", sut(dp.is_nested_dataframe, other), False),
        ("are_columns_nested(tuple / list / string cells)", sut(lambda: [bool(v) for v in dp.are_columns_nested(other)]), [False, False, False]),
    ]
    r = sut(check_X, other)
    if not (isinstance(r, Raised) and r.is_a(ValueError)):
        discs.append(D("check_X_accepts_frame_without_series_cells", repr(r)[:200]))
    if n >= 2:
        # series-valued cells anywhere: a primitive placeholder in the first / last row of one
        # column or of every column does not make the frame (or that column) flat
        first_one = build_nested(A, names, "series", inst)
        first_one.iloc[0, 0] = np.nan
        first_all = build_nested(A, names, case.get("pred_cells", "series"), inst)
        for j in range(c):
            first_all.iloc[0, j] = np.nan
        last_all = build_nested(A, names, "series", inst)
        for j in range(c):
            last_all.iloc[n - 1, j] = 0.0
        checks += [
            ("is_nested(primitive in first row of one column)", sut(dp.is_nested_dataframe, first_one), True),
            ("are_columns_nested(primitive in first row of one column)", sut(lambda: [bool(v) for v in dp.are_columns_nested(first_one)]), [True] * c),
            ("is_nested(primitive first row)", sut(dp.is_nested_dataframe, first_all), True),
            ("are_columns_nested(primitive first row)", sut(lambda: [bool(v) for v in dp.are_columns_nested(first_all)]), [True] * c),
            ("is_nested(primitive last row)", sut(dp.is_nested_dataframe, last_all), True),
            ("are_columns_nested(primitive last row)", sut(lambda: [bool(v) for v in dp.are_columns_nested(last_all)]), [True] * c),
        ]
    for what, got, want in checks:
        if isinstance(got, Raised) or got != want:
            discs.append(D("nestedness_predicate", "%s -> %r expected %r" % (what, got, want)))
    # series whose cells carry their own, per-instance time labels (e.g. sliding windows of one
    # long series): time order AND time labels of every instance survive nested <-> multi-index
    # and nested -> long
    offs = case.get("cell_offsets")
    if offs and not discs:
        ctx.label("per_instance_time_labels")
        lab = [[offs[i % len(offs)] + k for k in range(t)] for i in range(n)]
        Xo = pd.DataFrame({names[j]: [pd.Series(A[i, j].copy(), index=pd.Index(np.array(lab[i], dtype="int64"))) for i in range(n)]
                           for j in range(c)}, index=pd.Index(inst))
        mi = sut(dp.from_nested_to_multi_index, Xo, IX, TX)
        if isinstance(mi, Raised):
            discs.append(D("conversion_raised:Ns->MI:%s" % mi.type, "per-instance time labels: " + mi.msg))
        else:
            lev0, lev1 = list(mi.index.get_level_values(0)), [int(v) for v in mi.index.get_level_values(1)]
            want0 = [x for i in range(n) for x in [inst[i]] * t]
            want1 = [v for i in range(n) for v in lab[i]]
            if lev0 != want0 or lev1 != want1 or not np.array_equal(mi.to_numpy(dtype=float), np.concatenate([A[i].T for i in range(n)], axis=0)):
                discs.append(D("time_labels_differ:Ns->MI", "time labels %s expected %s" % (lev1[: 2 * t], want1[: 2 * t])))
            else:
                a3 = sut(dp.from_multi_index_to_3d_numpy, mi, IX, TX)
                if isinstance(a3, Raised) or not (isinstance(a3, np.ndarray) and a3.shape == A.shape and np.array_equal(a3, A)):
                    discs.append(D("values_differ:Ns->MI->A3", "per-instance time labels %s: %s" % (lab[:2], repr(a3)[:160])))
                back = sut(dp.from_multi_index_to_nested, mi, IX)
                if isinstance(back, Raised):
                    discs.append(D("conversion_raised:MI->Ns:%s" % back.type, "per-instance time labels: " + back.msg))
                else:
                    got = [[int(v) for v in back.iloc[i, 0].index] for i in range(n)]
                    if got != lab or not np.array_equal(dec_nested(back)[0], A):
                        discs.append(D("time_labels_differ:Ns->MI->Ns", "cell time labels %s expected %s" % (got[:2], lab[:2])))
        # the 3-D array has no time labels: values go there by position
        for what, fn in (("Ns->A3", lambda: dp.from_nested_to_3d_numpy(Xo)), ("check_X(coerce_to_numpy)", lambda: check_X(Xo, coerce_to_numpy=True))):
            a3 = sut(fn)
            if isinstance(a3, Raised):
                discs.append(D("conversion_raised:%s:%s" % (what, a3.type), "per-instance time labels: " + a3.msg))
            elif not (isinstance(a3, np.ndarray) and a3.shape == A.shape and np.array_equal(a3, A)):
                discs.append(D("values_differ:%s" % what, "per-instance time labels %s: got shape %s %s expected %s"
                               % (lab[:2], getattr(a3, "shape", None), np.asarray(a3).tolist()[:2], A.tolist()[:2])))
        lg = sut(dp.from_nested_to_long, Xo, "case_id", "reading_id", "dim_id")
        if isinstance(lg, Raised):
            discs.append(D("conversion_raised:Ns->L:%s" % lg.type, "per-instance time labels: " + lg.msg))
        else:
            first = lg[lg["dim_id"] == names[0]]
            got = [[int(v) for v in first[first["case_id"] == inst[i]]["reading_id"]] for i in range(n)]
            if got != lab:
                discs.append(D("time_labels_differ:Ns->L", "reading ids %s expected %s" % (got[:2], lab[:2])))
            else:
                # ... and the long table read back: instances in the order of their identifiers
                # (as on the generic paths), each with its own cells and its own time labels,
                # wherever its time labels lie relative to those of the other instances
                back = sut(dp.from_long_to_nested, lg)
                if isinstance(back, Raised) or not isinstance(back, pd.DataFrame):
                    discs.append(D("conversion_raised:Ns->L->Ns", "per-instance time labels %s: %r" % (lab[:2], back)))
                else:
                    iorder = sorted(range(n), key=lambda i: inst[i])
                    vorder = sorted(range(c), key=lambda j: names[j])
                    d = sut(dec_nested, back)
                    if isinstance(d, Raised) or d[0].shape != A[iorder][:, vorder].shape or not np.array_equal(d[0], A[iorder][:, vorder]):
                        discs.append(D("values_differ:Ns->L->Ns", "per-instance time labels %s (instances %s): got %s expected %s" % (
                            lab[:3], inst[:3], repr(d if isinstance(d, Raised) else d[0].tolist()[:2])[:200], A[iorder][:, vorder].tolist()[:2])))
                    else:
                        gl = [[int(v) for v in back.iloc[q, 0].index] for q in range(n)]
                        if gl != [lab[i] for i in iorder]:
                            discs.append(D("time_labels_differ:Ns->L->Ns", "cell time labels %s expected %s" % (gl[:2], [lab[i] for i in iorder][:2])))
    # the level names asked for are the level names of the result, also when only one of the
    # two is given (the next conversion needs just the instance level's name)
    if not discs:
        for ixn, txn in ((IX, None), (None, TX), (IX, TX)):
            kw = {k: v for k, v in (("instance_index", ixn), ("time_index", txn)) if v is not None}
            for what, fn in (("A3->MI", lambda: dp.from_3d_numpy_to_multi_index(A.copy(), column_names=list(names), **kw)),
                             ("Ns->MI", lambda: dp.from_nested_to_multi_index(starts["Ns"].copy(), **kw))):
                mi = sut(fn)
                if isinstance(mi, Raised):
                    discs.append(D("conversion_raised:%s:%s" % (what, mi.type), "level names %s: %s" % (kw, mi.msg)))
                    continue
                got_names = list(mi.index.names)
                if (ixn is not None and got_names[0] != ixn) or (txn is not None and got_names[1] != txn):
                    discs.append(D("level_names_differ:%s" % what, "asked for %s, index levels are named %s" % (kw, got_names)))
                elif ixn is not None:
                    back = sut(dp.from_multi_index_to_nested, mi, instance_index=ixn)
                    d = sut(dec_nested, back) if not isinstance(back, Raised) else back
                    if isinstance(d, Raised) or not np.array_equal(d[0], A):
                        discs.append(D("values_differ:%s->Ns" % what, "level names %s: %s" % (kw, repr(d)[:200])))
    # the instance level is found by its NAME: a frame whose levels are ordered (time, instance)
    # - rows as before - gives the same nested frame
    if not discs:
        mi = sut(dp.from_nested_to_multi_index, starts["Ns"].copy(), IX, TX)
        if not isinstance(mi, Raised):
            for cells_np in (False, True):
                back = sut(dp.from_multi_index_to_nested, mi.swaplevel(0, 1), instance_index=IX, cells_as_numpy=cells_np)
                d = sut(dec_nested, back) if not isinstance(back, Raised) else back
                if isinstance(d, Raised) or d[0].shape != A.shape or not np.array_equal(d[0], A):
                    discs.append(D("values_differ:MI(levels swapped)->%s" % ("Na" if cells_np else "Ns"), "instances %s: %s" % (inst[:3], repr(d)[:200])))
    # check_X coercions agree with the conversions
    r = sut(check_X, starts["Ns"], coerce_to_numpy=True)
    if isinstance(r, Raised) or not (isinstance(r, np.ndarray) and np.array_equal(r, A)):
        discs.append(D("check_X_coerce_to_numpy", repr(r)[:200]))
    # a primitive column counts as the same value at every time point of the instance, whatever
    # the instance labels and their order are
    rep = np.concatenate([A, np.repeat(np.arange(n, dtype=float)[:, None, None], t, axis=2)], axis=1)
    r = sut(check_X, mixed, coerce_to_numpy=True)
    if isinstance(r, Raised) or not (isinstance(r, np.ndarray) and r.shape == rep.shape and np.array_equal(r, rep)):
        discs.append(D("check_X_coerce_to_numpy:primitive_column", "instance labels %s: %s" % (inst, repr(r)[:200])))
    r = sut(check_X, A.copy(), coerce_to_pandas=True)
    if isinstance(r, Raised) or not isinstance(r, pd.DataFrame) or not np.array_equal(dec_nested(r)[0], A):
        discs.append(D("check_X_coerce_to_pandas", repr(r)[:200]))
    r = sut(check_X, starts["Na"])
    if isinstance(r, Raised) or r is not starts["Na"]:
        discs.append(D("check_X_passthrough", repr(r)[:200]))
    # a nested frame asked to stay (or become) pandas keeps its values, column names and
    # instance labels, whatever its cells are made of
    for kind in ("Ns", "Na"):
        r = sut(check_X, starts[kind].copy(), coerce_to_pandas=True)
        if isinstance(r, Raised) or not isinstance(r, pd.DataFrame):
            discs.append(D("check_X_coerce_to_pandas:%s" % kind, repr(r)[:200]))
            continue
        got, gn, gi = dec_nested(r)
        if not np.array_equal(got, A) or [str(x) for x in gn] != [str(x) for x in names] or [str(x) for x in gi] != [str(x) for x in inst]:
            discs.append(D("check_X_coerce_to_pandas_changes_frame:%s" % kind, "columns %s instances %s; expected columns %s instances %s"
                           % (gn, gi, names, inst)))
    r = sut(check_X, flat)
    if not (isinstance(r, Raised) and r.is_a(ValueError)):
        discs.append(D("check_X_accepts_flat_frame", repr(r)[:200]))
    return discs


_name_text = st.text(alphabet="abcxyzABC_019 .-", min_size=1, max_size=6)


@st.composite
def cases(draw):
    n = draw(st.integers(1, 6))
    mode = draw(st.sampled_from(["str", "str", "int", "default", "default_many"]))
    c = draw(st.integers(11, 12)) if mode == "default_many" else draw(st.integers(1, 4))
    t = draw(st.integers(2, 12))
    if mode == "str":
        names = draw(st.lists(_name_text, min_size=c, max_size=c, unique=True))
    elif mode == "int":
        names = draw(st.lists(st.integers(-5, 30), min_size=c, max_size=c, unique=True))
    else:
        names = None
    vals = draw(st.lists(st.lists(st.lists(
        st.floats(-1e9, 1e9, allow_nan=False, allow_infinity=False, width=64), min_size=t, max_size=t),
        min_size=c, max_size=c), min_size=n, max_size=n))
    return {"values": vals, "names": names, "inst_start": draw(st.sampled_from([0, 0, 5])),
            "inst_order": draw(st.one_of(st.none(), st.lists(st.integers(0, 9), min_size=1, max_size=6))),
            "inst_str": draw(st.booleans()),
            "cell_offsets": draw(st.one_of(st.none(), st.lists(st.integers(-5, 20), min_size=1, max_size=6)))}


def subchecks():
    return [SubCheck("conversion_paths", oracle, cases(), quick=240, thorough=6000, shards_quick=16, shards_thorough=16)]


SELECTORS = {}

FUZZ = [("conversion_paths", 3000)]
