"""C18 - .ts round trip, agreement of file formats, loader splits (DESIGN 2/C18)."""
import os
import shutil

import numpy as np
import pandas as pd
from hypothesis import strategies as st

from harness import load
from harness.runner import D, Raised, SubCheck, sut, unexpected

PROPERTY_ID = "C18"
LEVEL = "exploration"
RULE = (
    "ts_roundtrip: generated univariate equal-length panels over many magnitudes, label sets "
    "(mixed-case strings, strings of any printable non-separator characters, integers including 0, absent) and every writer option combination; the "
    "file is re-read by the loader and independently tokenised by the harness: each loaded value "
    "== float(printed token), each token within half a unit of its last printed digit of the "
    "original, labels equal after lower-casing. formats_agree / loader_splits: exhaustive over the "
    "bundled datasets. non-trivial (round trip) = labels present with a falsy or mixed-case label, "
    "or magnitudes spanning >= 6 decades, or a comment/seriesLength header; distinct = distinct JSON"
)
ASSUMPTIONS = ["scratch files live under /verif/.work/c18 and are removed after each case",
               "the bundled .ts/.arff/.tsv files store different numbers of decimals: panels are compared with atol 1e-4, labels lower-cased"]

from sktime.datasets import base as dsbase  # noqa: E402
from sktime.utils.data_io import (  # noqa: E402
    load_from_arff_to_dataframe,
    load_from_tsfile_to_dataframe,
    load_from_ucr_tsv_to_dataframe,
    write_dataframe_to_tsfile,
)


def _scratch():
    d = load.work_dir("c18", "p%d" % os.getpid())
    return d


def tokenise(path):
    """Independent reader of the data section: list of (value tokens, label or None)."""
    rows = []
    in_data = False
    header = []
    with open(path) as f:
        for line in f:
            s = line.strip()
            if not s or s.startswith("#"):
                continue
            if not in_data:
                header.append(s)
                if s.lower().startswith("@data"):
                    in_data = True
                continue
            parts = s.split(":")
            rows.append((parts[0].split(","), parts[1:] if len(parts) > 1 else []))
    return header, rows


def half_ulp(token):
    t = token.strip().lower()
    mant, _, exp = t.partition("e")
    d = len(mant.split(".")[1]) if "." in mant else 0
    e = int(exp) if exp else 0
    return 0.5 * 10.0 ** (e - d)


def oracle_roundtrip(case, ctx):
    discs = []
    if case.get("formula"):
        # a large panel (the written file is several MiB), values from a formula
        n_, t_, dec_ = case["formula"]
        k_ = np.arange(t_)
        case = dict(case, values=[np.round(np.sin(0.37 * k_ + i) * 1000.0 + i, dec_).tolist() for i in range(n_)],
                    labels=[["a", "b", "zz"][i % 3] for i in range(n_)] if case.get("labels") else None)
        ctx.label("file_of_several_MiB")
    A = np.array(case["values"], dtype=float)
    n, t = A.shape
    ci = case.get("cell_index")
    if ci:
        # the observations of a series are its values in the order they are held; the time
        # labels of a cell (not written to the file) may be anything: a later origin, a reversed
        # series that kept its labels, wrapped window labels
        lab = {"origin": lambda m: list(range(5, 5 + m)), "descending": lambda m: list(range(m - 1, -1, -1)),
               "wrapped": lambda m: [(k + m // 2) % m for k in range(m)]}[ci]
        X = pd.DataFrame({"dim_0": [pd.Series(A[i].copy(), index=lab(t)) for i in range(n)]})
        ctx.label("cell_time_labels_%s" % ci)
    else:
        X = pd.DataFrame({"dim_0": [pd.Series(A[i].copy()) for i in range(n)]})
    rl = case.get("row_labels")
    if rl:
        # a shuffled / sliced panel that was not re-indexed: instances are the ROWS, in order
        X.index = pd.Index({"shifted": list(range(3, 3 + n)), "reversed": list(range(n - 1, -1, -1)),
                            "shuffled": [(i + 1) % n for i in range(n)]}[rl])
        ctx.label("row_labels_%s" % rl)
    labels = case["labels"]
    kw = {}
    if labels is not None:
        classes = list(dict.fromkeys(labels))
        kw["class_label"] = classes
        kw["class_value_list"] = np.array(labels) if case["labels_as_array"] else list(labels)
    if case["comment"]:
        kw["comment"] = case["comment"]
    if case["equal_length"]:
        kw["equal_length"] = True
        kw["series_length"] = t
    name = "p%d" % (case["name_id"] % 3)
    d = _scratch()
    try:
        r = sut(write_dataframe_to_tsfile, X, d, problem_name=name, **kw)
        if isinstance(r, Raised):
            return [D("writer_raised:%s" % r.type, "%s: %s" % (sorted(kw), r.msg))]
        path = os.path.join(d, name, name + "_transform.ts")
        if not os.path.exists(path):
            return [D("file_not_written", path)]
        header, rows = tokenise(path)
        got = sut(load_from_tsfile_to_dataframe, path, return_separate_X_and_y=True)
        ctx.label("labelled" if labels is not None else "unlabelled")
        span = np.log10(np.max(np.abs(A[A != 0])) / np.min(np.abs(A[A != 0]))) if np.any(A != 0) else 0
        falsy = labels is not None and any((not lb) for lb in labels)
        mixed = labels is not None and any(isinstance(lb, str) and lb != lb.lower() for lb in labels)
        ctx.mark_nontrivial(falsy or mixed or span >= 6 or bool(case["comment"]) or case["equal_length"])
        if falsy:
            ctx.label("falsy_label")
        if isinstance(got, Raised):
            return [D("written_file_not_loadable:%s" % got.type, "labels=%s opts=%s header=%s: %s"
                      % (labels, sorted(kw), header[-3:], got.msg))]
        if labels is not None:
            if not (isinstance(got, tuple) and len(got) == 2):
                return [D("loader_result_shape", repr(type(got)))]
            Xl, yl = got
        else:
            Xl, yl = (got if not isinstance(got, tuple) else got[0]), None
        if not isinstance(Xl, pd.DataFrame) or Xl.shape != (n, 1):
            return [D("instance_count", "loaded shape %r expected (%d, 1)" % (getattr(Xl, "shape", None), n))]
        if len(rows) != n:
            return [D("lines_written", "%d data lines for %d instances" % (len(rows), n))]
        for i in range(n):
            v = np.asarray(Xl.iloc[i, 0], dtype=float)
            toks, lab = rows[i]
            if len(v) != t or len(toks) != t:
                discs.append(D("series_length", "instance %d: loaded %d, printed %d, original %d" % (i, len(v), len(toks), t)))
                break
            for k in range(t):
                ft = float(toks[k])
                if v[k] != ft and not (np.isnan(v[k]) and np.isnan(ft)):
                    discs.append(D("loaded_value_not_printed_token", "instance %d t=%d: loaded %r token %r" % (i, k, v[k], toks[k])))
                    break
                if abs(ft - A[i, k]) > half_ulp(toks[k]) * (1 + 1e-9) + abs(A[i, k]) * 1e-15:
                    discs.append(D("printed_value_inexact", "instance %d t=%d: original %r printed %r" % (i, k, A[i, k], toks[k])))
                    break
            if discs:
                break
        if labels is not None and not discs:
            want = [str(lb).lower() for lb in labels]
            gl = [str(v) for v in np.asarray(yl).tolist()]
            if gl != want:
                discs.append(D("labels_differ", "loaded %s expected %s" % (gl, want)))
        return discs
    finally:
        shutil.rmtree(os.path.join(d, name), ignore_errors=True)


def _dec(X):
    return [[np.asarray(X.iloc[i, j], dtype=float) for j in range(X.shape[1])] for i in range(X.shape[0])]


def _same_panel(a, b, tol=0.0):
    if len(a) != len(b):
        return "instance counts %d vs %d" % (len(a), len(b))
    for i, (ra, rb) in enumerate(zip(a, b)):
        if len(ra) != len(rb):
            return "instance %d: %d vs %d variables" % (i, len(ra), len(rb))
        for j, (x, y) in enumerate(zip(ra, rb)):
            if x.shape != y.shape or not np.allclose(x, y, rtol=tol, atol=tol, equal_nan=True):
                return "instance %d variable %d differ" % (i, j)
    return None


DATA = os.path.join(load.REPO, "sktime", "datasets", "data")
FORMAT_SETS = [("ArrowHead", True), ("GunPoint", True), ("BasicMotions", False)]
LOADERS = ["load_gunpoint", "load_osuleaf", "load_italy_power_demand", "load_japanese_vowels", "load_arrow_head",
           "load_acsf1", "load_basic_motions"]


def _same_label(x, y):
    """the same class label, read as a number where both are numbers and as text otherwise"""
    try:
        return float(x) == float(y)
    except (TypeError, ValueError):
        return str(x).strip().lower() == str(y).strip().lower()


def oracle_formats(case, ctx):
    name, has_tsv = FORMAT_SETS[case["i"]]
    ctx.mark_nontrivial(True)
    ctx.label(name)
    base = os.path.join(DATA, name, name + "_TRAIN")
    ts = sut(load_from_tsfile_to_dataframe, base + ".ts")
    arff = sut(load_from_arff_to_dataframe, base + ".arff")
    discs = []
    for what, r in (("ts", ts), ("arff", arff)):
        if isinstance(r, Raised):
            discs.append(D("bundled_file_not_loadable:%s:%s" % (name, what), repr(r)))
    if discs:
        return discs
    d = _same_panel(_dec(ts[0]), _dec(arff[0]), 1e-4)
    if d:
        discs.append(D("ts_vs_arff:%s" % name, d))
    if [str(v).lower() for v in ts[1]] != [str(v).lower() for v in arff[1]]:
        discs.append(D("ts_vs_arff_labels:%s" % name, "%s vs %s" % (list(ts[1])[:5], list(arff[1])[:5])))
    if has_tsv:
        tsv = sut(load_from_ucr_tsv_to_dataframe, base + ".tsv")
        if isinstance(tsv, Raised):
            return discs + [D("bundled_file_not_loadable:%s:tsv" % name, repr(tsv))]
        d = _same_panel(_dec(ts[0]), _dec(tsv[0]), 1e-4)
        if d:
            discs.append(D("ts_vs_tsv:%s" % name, d))
        # the same labels: a UCR tsv file holds the class as a number, the .ts file as text
        if len(ts[1]) != len(tsv[1]):
            discs.append(D("ts_vs_tsv_labels:%s" % name, "%d vs %d labels" % (len(ts[1]), len(tsv[1]))))
        for i, (x, y) in enumerate(zip(ts[1], tsv[1])):
            if not _same_label(x, y):
                discs.append(D("ts_vs_tsv_labels:%s" % name, "instance %d: .ts %r .tsv %r" % (i, x, y)))
                break
    return discs


def oracle_loaders(case, ctx):
    fn = getattr(dsbase, LOADERS[case["i"]])
    ctx.mark_nontrivial(True)
    ctx.label(LOADERS[case["i"]])
    discs = []
    res = {}
    for split in (None, "train", "test"):
        for rxy in (True, False):
            r = sut(fn, split=split, return_X_y=rxy)
            if isinstance(r, Raised):
                discs.append(D("loader_raised:%s" % LOADERS[case["i"]], "split=%r return_X_y=%r: %r" % (split, rxy, r)))
            res[(split, rxy)] = r
    if discs:
        return discs
    for key, r in res.items():
        X_ = r[0] if key[1] else r.iloc[:, :-1]
        chk = sut(_dec, X_)
        if isinstance(chk, Raised):
            discs.append(D("loader_output_malformed", "split=%r return_X_y=%r: columns %s: %s" % (key[0], key[1], list(getattr(X_, "columns", [])), chk.msg)))
    if discs:
        return discs
    Xtr, ytr = res[("train", True)]
    Xte, yte = res[("test", True)]
    Xall, yall = res[(None, True)]
    if Xtr.shape[1] != Xte.shape[1] or Xall.shape[1] != Xtr.shape[1]:
        return [D("loader_column_count", "train %s test %s all %s" % (Xtr.shape, Xte.shape, Xall.shape))]
    want = _dec(Xtr) + _dec(Xte)
    d = _same_panel(_dec(Xall), want)
    if d:
        discs.append(D("split_none_not_train_then_test", d))
    if [str(v) for v in np.asarray(yall)] != [str(v) for v in list(ytr) + list(yte)]:
        discs.append(D("split_none_labels", "labels are not train followed by test"))
    for split, (X, y) in ((None, (Xall, yall)), ("train", (Xtr, ytr)), ("test", (Xte, yte))):
        F = res[(split, False)]
        if list(F.columns) != list(X.columns) + ["class_val"]:
            discs.append(D("frame_columns", "split=%r: %s" % (split, list(F.columns))))
            continue
        d = _same_panel(_dec(F.iloc[:, :-1]), _dec(X))
        if d:
            discs.append(D("frame_vs_X_y_cells", "split=%r: %s" % (split, d)))
        if [str(v) for v in F["class_val"].tolist()] != [str(v) for v in np.asarray(y)]:
            discs.append(D("frame_vs_X_y_labels", "split=%r: labels of the single-frame form differ position by position" % (split,)))
    return discs


_mag = st.sampled_from([1e-6, 1e-3, 1.0, 1.0, 37.5, 1e3, 1e6, 1e9])


@st.composite
def rt_cases(draw):
    n = draw(st.integers(1, 6))
    t = draw(st.integers(2, 10))
    vals = [[round(draw(st.floats(-1, 1, allow_nan=False)) * draw(_mag), draw(st.integers(0, 8))) for _ in range(t)] for _ in range(n)]
    long_t = draw(st.sampled_from([0] * 12 + [1001, 1460, 3000]))
    if long_t:
        # long series (more points than any printing threshold), values from a formula
        import math

        n = min(n, 3)
        mag, dec = draw(_mag), draw(st.integers(1, 6))
        vals = [[round(math.sin(0.37 * k + i) * mag, dec) for k in range(long_t)] for i in range(n)]
    kind = draw(st.sampled_from(["none", "str", "str_mixed", "int0", "int1", "float", "str_punct", "str_words", "str_unicode", "str_separators"]))
    if kind == "none":
        labels = None
    elif kind == "str_punct":
        # any token without white space and without the format's own separators / missing mark
        pool = draw(st.lists(st.text(alphabet="abXY019#@%&-+._/|!$*()=~^;", min_size=1, max_size=5), min_size=1, max_size=3,
                             unique_by=lambda v: v.lower()))
        labels = [pool[draw(st.integers(0, len(pool) - 1))] for _ in range(n)]
    else:
        pool = {"str": ["a", "b", "zz"], "str_mixed": ["Up", "DOWN", "left"], "int0": [0, 1, 2], "int1": [1, 2, 3],
                "float": [0.0, 1.5, 2.0],
                # labels of several words (a blank inside the label)
                "str_words": ["gun draw", "no gun", "x y z"],
                # labels outside ASCII (the file is text; what is written is what is read)
                "str_unicode": ["caf\u00e9", "z\u00fcrich", "\u03b4\u03b5", "\u6771\u4eac"],
                # characters that some text routines treat as line boundaries although they are not newlines
                "str_separators": ["up\x0chill", "a\x0bb", "p\u2028q", "r\u2029s", "u\x85v", "f\x1cg", "h\x1ei"]}[kind]
        k = draw(st.integers(1, 3))
        labels = [pool[draw(st.integers(0, k - 1))] for _ in range(n)]
    return {"values": vals, "labels": labels, "labels_as_array": draw(st.booleans()),
            "comment": draw(st.sampled_from(["", "", "a short comment", "a much longer comment " * 6])),
            "equal_length": draw(st.booleans()), "name_id": draw(st.integers(0, 2)),
            "row_labels": draw(st.sampled_from([None, None, "shifted", "reversed", "shuffled"])),
            "cell_index": draw(st.sampled_from([None, None, None, "origin", "descending", "wrapped"]))}


def enum_large_files(tier):
    """Written files of about 5 and 9 MiB (more than any buffer or size hint a reader might use)."""
    for n_, t_ in ((450, 1100), (800, 1100)) if tier != "quick" else ((450, 1100),):
        for lab in (True, False):
            yield {"formula": [n_, t_, 4], "labels": lab, "labels_as_array": False, "comment": None, "equal_length": True, "name_id": 1,
                   "cell_index": None, "row_labels": None}


def subchecks():
    return [
        SubCheck("ts_roundtrip", oracle_roundtrip, rt_cases(), quick=2000, thorough=10000, shards_quick=6, shards_thorough=16),
        SubCheck("large_files", oracle_roundtrip, enumerate_cases=enum_large_files, shards_quick=2, shards_thorough=4, exhaustive=True),
        SubCheck("formats_agree", oracle_formats, enumerate_cases=lambda tier: [{"i": i} for i in range(len(FORMAT_SETS))],
                 shards_quick=3, shards_thorough=3, exhaustive=True),
        SubCheck("loader_splits", oracle_loaders, enumerate_cases=lambda tier: [{"i": i} for i in range(len(LOADERS))],
                 shards_quick=7, shards_thorough=7, exhaustive=True),
    ]


def _sel_unlabelled(case, disc):
    return case.get("labels") is None


SELECTORS = {"unlabelled_write": _sel_unlabelled}

FUZZ = [("ts_roundtrip", 10000)]
