"""C12 - applying an estimator is pure, reproducible and independent of scheduling (DESIGN 2/C12)."""
import pickle

import numpy as np
import pandas as pd
from hypothesis import strategies as st

from harness import gen, panelpool, pools
from harness.runner import D, Raised, SubCheck, sut, unexpected

PROPERTY_ID = "C12"
LEVEL = "exploration"
RULE = (
    "generated estimators from every runnable family (forecasters incl. composites, series "
    "transformers incl. HampelFilter / Imputer on data with outliers and gaps, panel transformers, "
    "classifiers, forest regressor) and inputs in all accepted containers; oracles: deep snapshots "
    "of the caller's data around fit and around every apply call; generated interleavings (<= 6 "
    "calls) of apply-type methods (incl. in-sample forecasts) must return equal results for equal "
    "arguments; equal parameters + random_state on equal data give equal outputs; n_jobs in "
    "{None, 1, 2, 4} under the threading backend give equal outputs (own sub-check on panels with "
    "tied member accuracies and noisy test instances); pickle round trip; series transformers "
    "are also applied to a later stretch at any phase offset. "
    "non-trivial = NaN/outlier present, or n_jobs > 1, or a randomised estimator, or an "
    "interleaving with >= 3 calls; distinct = distinct JSON of the case"
)
ASSUMPTIONS = [
    "thread schedules are sampled by the OS under joblib's threading backend, not enumerated",
    "'unchanged' is judged on values, labels and dtypes, not on the index class",
    "time-contracted estimators (wall-clock dependent by design) are excluded",
]


# ------------------------------------------------------------------ snapshots
def snap(obj):
    if obj is None:
        return None
    if isinstance(obj, pd.Series):
        return ("S", obj.to_numpy().copy() if obj.dtype != object else [snap(v) for v in obj], list(obj.index), str(obj.dtype))
    if isinstance(obj, pd.DataFrame):
        cols = []
        for j, c in enumerate(obj.columns):
            col = obj.iloc[:, j]  # by position: column names may repeat
            cols.append((str(c), [snap(v) if isinstance(v, (pd.Series, np.ndarray)) else v for v in col.tolist()] if col.dtype == object else col.to_numpy().copy(), str(col.dtype)))
        return ("F", cols, list(obj.index))
    if isinstance(obj, np.ndarray):
        return ("A", obj.copy(), str(obj.dtype))
    return ("O", repr(obj))


def snap_eq(a, b):
    if type(a) is not type(b):
        return False
    if a is None:
        return True
    if isinstance(a, tuple):
        return len(a) == len(b) and all(snap_eq(x, y) for x, y in zip(a, b))
    if isinstance(a, list):
        return len(a) == len(b) and all(snap_eq(x, y) for x, y in zip(a, b))
    if isinstance(a, np.ndarray):
        if a.shape != b.shape:
            return False
        if a.dtype.kind in "fc":
            return np.array_equal(a, b, equal_nan=True)
        return np.array_equal(a, b)
    if isinstance(a, float) and isinstance(b, float):
        return a == b or (np.isnan(a) and np.isnan(b))
    return a == b


def res_eq(a, b):
    """Equality of two results of the same call."""
    if isinstance(a, Raised) or isinstance(b, Raised):
        return isinstance(a, Raised) and isinstance(b, Raised) and a.type == b.type
    if isinstance(a, tuple) and isinstance(b, tuple):
        return len(a) == len(b) and all(res_eq(x, y) for x, y in zip(a, b))
    return snap_eq(snap(a), snap(b))


# ------------------------------------------------------------------ subjects
def subject(case):
    """Returns dict(est_factory, fit(est), calls{name: fn(est)}, data{name: obj}, desc, randomised)."""
    fam = case["family"]
    spec = case["spec"]
    rs = case.get("rs", 0)
    if fam == "forecaster":
        n = pools.min_length(spec, 3) + 10
        vals = [v + ((i * 37) % 11) / 7.0 for i, v in enumerate((case["values"] * 5)[:n])]
        y = gen.build_series(vals, case["start"], case["index_kind"])
        data = {"y": y}
        ins = [-3, -1, 0]
        calls = {
            "predict": lambda e: e.predict([1, 2, 3]),
            "predict_gapped": lambda e: e.predict([2, 4]),
            "predict_in_sample": lambda e: e.predict(ins),
            "predict_mixed": lambda e: e.predict([-1, 0, 1, 2]),
        }
        if pools.needs_fh_in_fit(spec):
            calls = {"predict": lambda e: e.predict(), "predict_again": lambda e: e.predict([1, 2, 3])}
        if spec["kind"] == "pipeline":
            calls["transform"] = lambda e: e.transform(data["y"])
            calls["inverse_transform"] = lambda e: e.inverse_transform(data["y"])
        return {"make": lambda: pools.build_forecaster(spec), "fit": lambda e: e.fit(data["y"], None, [1, 2, 3]),
                "calls": calls, "data": data, "desc": pools.describe(spec), "randomised": False}
    if fam == "series_transformer":
        n = 30
        vals = np.array([v + ((i * 37) % 11) / 7.0 for i, v in enumerate((case["values"] * 4)[:n])])
        if spec["kind"] == "hampel":
            for i in case["marks"]:
                vals[2 + i % (n - 4)] += 900.0
        if spec["kind"] == "imputer":
            if case.get("int_valued"):
                vals = np.round(vals)  # integer-valued observations (counts)
            for i in case["marks"]:
                vals[2 + i % (n - 4)] = np.nan if spec.get("missing_values") is None else spec["missing_values"]
        z = gen.build_series(vals, case["start"], case["index_kind"])
        multivariate = spec["kind"] in ("hampel", "imputer", "cos", "log", "scaler") and case["as_frame"]
        if multivariate:
            z = pd.DataFrame({"a": z, "b": z * 2.0 + 1.0})
        # a later stretch of time, starting at an arbitrary offset (any seasonal phase)
        off = case["marks"][0] % 9
        z2 = gen.build_series([11.0 + 0.75 * j + ((j * 5) % 7) / 3.0 for j in range(8)], int(z.index[-1]) + 1 + off, case["index_kind"])
        if multivariate:
            z2 = pd.DataFrame({"a": z2, "b": z2 * 2.0 + 1.0})
        data = {"Z": z, "Z2": z2}
        calls = {"transform": lambda e: e.transform(data["Z"]), "transform_later": lambda e: e.transform(data["Z2"])}
        t0 = panelpool.build_series_transformer(spec)
        if hasattr(t0, "inverse_transform"):
            calls["inverse_transform"] = lambda e: e.inverse_transform(data["Z"])
            calls["inverse_transform_later"] = lambda e: e.inverse_transform(data["Z2"])
        return {"make": lambda: panelpool.build_series_transformer(spec), "fit": lambda e: e.fit(data["Z"]),
                "calls": calls, "data": data, "desc": spec["kind"], "randomised": spec.get("method") == "random"}
    if fam == "panel_transformer":
        c = 1 if spec["kind"] in panelpool.UNIVARIATE_ONLY else 1 + case["seed"] % 2
        X3 = panelpool.panel_values(case["seed"], 6, c, 20)
        cont = case["container"]
        Xa3 = panelpool.panel_values(case["seed"] + 11, 4, c, 20)
        if spec["kind"] == "plateau":
            # runs of missing values (what the finder looks for by default)
            for A in (X3, Xa3):
                for i in range(len(A)):
                    a0 = 1 + (3 * i + case["seed"]) % 5
                    A[i, 0, a0: a0 + 2 + i % 3] = np.nan
                    if i % 2:
                        A[i, 0, a0 + 6: a0 + 8] = np.nan
        X = panelpool.to_nested(X3, cells="array" if cont == "nested_array" and spec["kind"] not in ("pad", "trunc", "interp", "paa", "dslope", "slope", "dwt", "hog") else "series") if cont != "numpy3d" else X3
        data = {"X": X, "y": panelpool.labels_for(6, "int"), "Xa": panelpool.to_nested(Xa3) if cont != "numpy3d" else Xa3}
        s2 = dict(spec, random_state=rs)
        # panels of another shape than the fitted one (longer / shorter series, one instance):
        # whatever a call on them does - answer or refuse - it leaves the fitted object as it was
        def _other(t_len, n_inst):
            A = panelpool.panel_values(case["seed"] + 29, n_inst, c, t_len)
            return panelpool.to_nested(A) if cont != "numpy3d" else A

        others = [_other(26, 3), _other(9, 3), _other(20, 1)]
        return {"make": lambda: panelpool.build_panel_transformer(s2), "fit": lambda e: e.fit(data["X"], data["y"]),
                "awkward": [(lambda e, O=O: e.transform(O)) for O in others],
                "calls": {"transform": lambda e: e.transform(data["X"]), "transform_new": lambda e: e.transform(data["Xa"])},
                "data": data, "desc": spec["kind"],
                "randomised": spec["kind"] in ("riseg", "rife", "rocket")}
    kind = spec["kind"]
    c = 2 if kind == "muse" else (spec.get("n_columns", 1) if kind == "cec" else 1)
    t = max(24, panelpool.min_timepoints(kind))
    X3 = panelpool.panel_values(case["seed"], 8, c, t)
    if case.get("as_frame"):
        # exact copies with different labels: distance ties that are broken at random
        X3[1] = X3[0]
        X3[3] = X3[2]
    X = panelpool.to_nested(X3) if case["container"] != "numpy3d" else X3
    y = np.linspace(0, 1, 8) if kind == "tsfr" else panelpool.labels_for(8, "str")
    if case.get("flip_labels"):
        y = y[::-1].copy()
    Xa3 = (X3 + panelpool.panel_values(case["seed"] + 11, 8, c, t)) / 2.0
    data = {"X": X, "y": y, "Xa": panelpool.to_nested(Xa3) if case["container"] != "numpy3d" else Xa3}
    s2 = dict(spec, random_state=rs, n_jobs=case.get("n_jobs", 1))
    calls = {"predict": lambda e: e.predict(data["X"]), "predict_new": lambda e: e.predict(data["Xa"])}
    if kind != "tsfr":
        calls["predict_proba"] = lambda e: e.predict_proba(data["X"])
        calls["predict_proba_new"] = lambda e: e.predict_proba(data["Xa"])
    return {"make": lambda: panelpool.build_classifier(s2), "fit": lambda e: e.fit(data["X"], data["y"]),
            "calls": calls, "data": data, "desc": kind, "randomised": True}


def oracle_purity(case, ctx):
    """Caller data unchanged by fit and by every apply call; interleavings return equal results."""
    S = subject(case)
    desc = S["desc"]
    ctx.label("%s:%s" % (case["family"], desc.split("(")[0]))
    marks = case["family"] == "series_transformer" and case["spec"]["kind"] in ("hampel", "imputer")
    ctx.mark_nontrivial(marks or len(case["order"]) >= 3 or S["randomised"])
    est = S["make"]()
    before = {k: snap(v) for k, v in S["data"].items()}
    r = sut(S["fit"], est)
    if isinstance(r, Raised):
        ctx.mark_rejected()
        ctx.label("fit_refused")
        return []
    discs = []
    for k, v in S["data"].items():
        if not snap_eq(before[k], snap(v)):
            discs.append(D("fit_modifies_caller_data:%s" % type(est).__name__, "%s: argument %s changed" % (desc, k)))
    if discs:
        return discs
    names = sorted(S["calls"])
    first = {}
    for step, i in enumerate(case["order"]):
        name = names[i % len(names)]
        out = sut(S["calls"][name], est)
        for k, v in S["data"].items():
            if not snap_eq(before[k], snap(v)):
                discs.append(D("apply_modifies_caller_data:%s.%s" % (type(est).__name__, name), "%s: argument %s changed by %s()" % (desc, k, name)))
                return discs
        if name in first:
            if not res_eq(first[name], out):
                seq = [names[j % len(names)] for j in case["order"][: step + 1]]
                discs.append(D("apply_not_repeatable:%s.%s" % (type(est).__name__, name),
                               "%s: call sequence %s: %s() returned %s, earlier %s"
                               % (desc, seq, name, _short(out), _short(first[name]))))
                return discs
        else:
            first[name] = out
    if S.get("awkward") and not discs:
        for aw in S["awkward"]:
            sut(aw, est)
        for name in sorted(first):
            out = sut(S["calls"][name], est)
            if not res_eq(first[name], out):
                discs.append(D("apply_changes_fitted_state:%s.%s" % (type(est).__name__, name),
                               "%s: after calls on panels of other shapes %s() returned %s, before them %s" % (desc, name, _short(out), _short(first[name]))))
                return discs
        ctx.label("calls_on_other_shapes_interleaved")
    if case["family"] == "forecaster" and not pools.needs_fh_in_fit(case["spec"]) and not discs:
        # a horizon passed to predict is remembered; repeating the call without it must give the
        # same answer (predict does not change the estimator, whatever steps were asked for)
        for hz in ([-3, -1, 0], [-1, 0, 1, 2], [2, 4]):
            a = sut(est.predict, hz)
            b = sut(est.predict)
            if isinstance(a, Raised) and isinstance(b, Raised):
                continue
            if not res_eq(a, b):
                discs.append(D("apply_not_repeatable:%s.predict_with_remembered_horizon" % type(est).__name__,
                               "%s: predict(%s) returned %s, predict() right after it %s" % (desc, hz, _short(a), _short(b))))
                break
    if case["family"] == "forecaster" and not discs:
        # update is a fitting-type call too: neither the series once given to fit nor the batch
        # given to update is changed by it - for a batch of new time points and for a batch
        # that revises time points already known (first update after fit, and a later one)
        y = S["data"]["y"]
        c = int(y.index[-1])
        for first_batch in ("revision", "new"):
            e2 = S["make"]()
            if isinstance(sut(S["fit"], e2), Raised):
                break
            batches = {"revision": y.iloc[-4:-1] * 1.5 + 1.0,
                       "new": gen.build_series([float(y.iloc[-1]) + 0.25 * j for j in range(1, 4)], c + 1, case["index_kind"])}
            for bname in ([first_batch] + [b for b in batches if b != first_batch]):
                batch = batches[bname]
                b0 = snap(batch)
                for upar in (False, True):
                    sut(e2.update, batch, None, upar)
                    if not snap_eq(before["y"], snap(y)):
                        discs.append(D("update_modifies_series_given_to_fit:%s" % type(e2).__name__,
                                       "%s: update(%s batch, update_params=%s) changed the series that was passed to fit" % (desc, bname, upar)))
                        return discs
                    if not snap_eq(b0, snap(batch)):
                        discs.append(D("update_modifies_caller_data:%s" % type(e2).__name__, "%s: update changed the %s batch it was given" % (desc, bname)))
                        return discs
            ctx.label("update_purity")
    return discs


def _short(o):
    if isinstance(o, Raised):
        return repr(o)[:120]
    try:
        return str(np.asarray(o).ravel()[:5].tolist())
    except Exception:  # noqa: BLE001
        return type(o).__name__


def oracle_reproducible(case, ctx):
    """Equal parameters + random_state on equal data; pickle round trip; n_jobs invariance."""
    import joblib

    S = subject(case)
    desc = S["desc"]
    ctx.label("%s:%s" % (case["family"], desc.split("(")[0]))
    nj = case.get("n_jobs")
    ctx.mark_nontrivial(S["randomised"] or (nj or 1) > 1)
    if (nj or 1) > 1:
        ctx.label("n_jobs>1")
    with joblib.parallel_backend("threading"):
        a = S["make"]()
        r = sut(S["fit"], a)
        if isinstance(r, Raised):
            ctx.mark_rejected()
            return []
        b = S["make"]()
        if case.get("order") and case["order"][0] % 2 == 0:
            # the twin was fitted before on OTHER data: equal parameters fitted (last) on equal
            # data still answer equally
            other = dict(case, seed=case["seed"] + 7, values=[v * 0.5 + 3.0 for v in case["values"]][::-1], start=case["start"] + 2)
            if case["family"] == "panel_estimator" and case["order"][-1] % 2 == 0:
                # the same panel with the labels the other way round: whatever survives from the
                # earlier fit was perfectly trained for the opposite answer
                other = dict(case, flip_labels=True)
            sut(subject(other)["fit"], b)
            ctx.label("twin_fitted_before_on_other_data")
        sut(S["fit"], b)
        discs = []
        outs_a = {n: sut(f, a) for n, f in sorted(S["calls"].items())}
        outs_b = {n: sut(f, b) for n, f in sorted(S["calls"].items())}
        for n in outs_a:
            if not res_eq(outs_a[n], outs_b[n]):
                discs.append(D("same_seed_different_result:%s.%s" % (type(a).__name__, n), "%s rs=%s: %s vs %s" % (desc, case.get("rs"), _short(outs_a[n]), _short(outs_b[n]))))
        # pickle
        p = sut(lambda: pickle.loads(pickle.dumps(a)))
        if isinstance(p, Raised):
            discs.append(D("pickle_fails:%s" % type(a).__name__, "%s: %r" % (desc, p)))
        else:
            for n, f in sorted(S["calls"].items()):
                o = sut(f, p)
                if not res_eq(outs_a[n], o):
                    discs.append(D("pickle_changes_result:%s.%s" % (type(a).__name__, n), "%s: %s vs %s" % (desc, _short(outs_a[n]), _short(o))))
        # n_jobs
        if case["family"] in ("panel_estimator",) and case["spec"]["kind"] in ("tsf", "rise", "stsf", "tsfr", "boss", "iboss", "cboss"):
            base_case = dict(case, n_jobs=1)
            S1 = subject(base_case)
            e1 = S1["make"]()
            sut(S1["fit"], e1)
            for n, f in sorted(S1["calls"].items()):
                o1 = sut(f, e1)
                if not res_eq(outs_a[n], o1):
                    discs.append(D("n_jobs_changes_result:%s.%s" % (type(a).__name__, n), "%s n_jobs=%s vs 1: %s vs %s" % (desc, nj, _short(outs_a[n]), _short(o1))))
        if case["family"] == "forecaster" and case["spec"]["kind"] in ("ensemble",):
            s1 = dict(case["spec"], n_jobs=1)
            e1 = pools.build_forecaster(s1)
            sut(e1.fit, S["data"]["y"], None, [1, 2, 3])
            o1 = sut(e1.predict)
            o2 = sut(a.predict) if pools.needs_fh_in_fit(case["spec"]) else sut(a.predict, [1, 2, 3])
            if not res_eq(o1, o2):
                discs.append(D("n_jobs_changes_result:EnsembleForecaster.predict", "%s n_jobs=%s vs 1" % (desc, case["spec"].get("n_jobs"))))
    return discs


def oracle_n_jobs(case, ctx):
    """Equal parameters and random_state on equal data: the fitted estimator answers the same
    whatever n_jobs is (threaded backend), on the training panel and on noisy new instances."""
    import joblib

    kind = case["kind"]
    X3, cls, Xt3 = panelpool.two_frequency_panel(case["seed"], case["n"], case["t"], case["noise"], case["test_noise"], 12)
    y = np.linspace(0, 1, len(cls)) + cls if kind == "tsfr" else np.array(["a", "b"])[cls]
    X, Xt = (panelpool.to_nested(X3), panelpool.to_nested(Xt3)) if case["container"] == "nested" else (X3, Xt3)
    ctx.label(kind)
    ctx.label("n_jobs=%s" % case["n_jobs"])
    outs = {}
    with joblib.parallel_backend("threading"):
        for nj in (1, case["n_jobs"]):
            spec = {"kind": kind, "random_state": case["rs"], "n_jobs": nj, "max_ensemble_size": case["mes"],
                    "n_estimators": case["n_estimators"]}
            e = panelpool.build_classifier(spec)
            r = sut(e.fit, X, y)
            if isinstance(r, Raised):
                if nj == 1:
                    ctx.mark_rejected()
                    return []
                return [D("n_jobs_changes_result:%s.fit" % type(e).__name__, "n_jobs=1 fits, n_jobs=%s raises %r" % (nj, r))]
            o = {"predict": sut(e.predict, Xt), "predict_train": sut(e.predict, X)}
            if kind != "tsfr":
                o["predict_proba"] = sut(e.predict_proba, Xt)
            outs[nj] = (type(e).__name__, o)
    ctx.mark_nontrivial(True)
    name, o1 = outs[1]
    _, o2 = outs[case["n_jobs"]]
    discs = []
    for m in sorted(o1):
        if isinstance(o1[m], Raised) and isinstance(o2[m], Raised):
            continue
        if not res_eq(o1[m], o2[m]):
            discs.append(D("n_jobs_changes_result:%s.%s" % (name, m), "%s seed=%d n=%d t=%d rs=%d n_jobs=%s vs 1: %s vs %s"
                           % (kind, case["seed"], case["n"], case["t"], case["rs"], case["n_jobs"], _short(o2[m]), _short(o1[m]))))
    return discs


@st.composite
def n_jobs_cases(draw):
    kind = draw(st.sampled_from(["boss", "boss", "boss", "cboss", "iboss", "tsf", "rise", "stsf", "tsfr"]))
    return {"kind": kind, "seed": draw(st.integers(0, 10 ** 6)), "n": draw(st.sampled_from([10, 12, 16])),
            "t": draw(st.sampled_from([32, 40, 48])), "noise": draw(st.sampled_from([0.3, 0.5, 0.8])),
            "test_noise": draw(st.sampled_from([0.8, 1.2, 1.6])), "rs": draw(st.integers(0, 50)),
            "n_jobs": draw(st.sampled_from([2, 4, 2, 4, None])), "mes": draw(st.sampled_from([3, 10, 500])),
            "n_estimators": draw(st.integers(2, 6)), "container": draw(st.sampled_from(["nested", "numpy3d"]))}


# ------------------------------------------------------------------ strategies
N_INTERVALS = (3, "random", "sqrt", "log", 0.25, 1)


@st.composite
def cases(draw, reproducible=False):
    fam = draw(st.sampled_from(["forecaster", "forecaster", "series_transformer", "series_transformer", "panel_transformer", "panel_estimator"]))
    c = {"family": fam, "values": draw(gen.series_values(10, 10, lo=5.0, hi=200.0)), "start": draw(gen.index_start),
         "index_kind": draw(gen.index_kind), "seed": draw(st.integers(0, 10 ** 6)), "rs": draw(st.integers(0, 500)),
         "order": draw(st.lists(st.integers(0, 5), min_size=2, max_size=6)),
         "marks": draw(st.lists(st.integers(0, 30), min_size=1, max_size=4)), "as_frame": draw(st.booleans()),
         "int_valued": draw(st.booleans()),
         "container": draw(st.sampled_from(["nested", "nested_array", "numpy3d"])),
         "n_jobs": draw(st.sampled_from([None, 1, 2, 4]))}
    if fam == "forecaster":
        spec = draw(pools.forecaster_specs(max_depth=1))
        if spec["kind"] == "ensemble":
            spec["n_jobs"] = c["n_jobs"]
        c["spec"] = spec
    elif fam == "series_transformer":
        c["spec"] = draw(panelpool.series_transformer_specs)
    elif fam == "panel_transformer":
        c["spec"] = {"kind": draw(st.sampled_from(list(panelpool.PANEL_TRANSFORMERS)))}
        if c["spec"]["kind"] in ("riseg", "rife"):
            # every documented way of giving the number of random intervals
            c["spec"]["n_intervals"] = draw(st.sampled_from(N_INTERVALS))
    else:
        c["spec"] = {"kind": draw(st.sampled_from(panelpool.CLASSIFIERS + ("tsfr",))), "n_columns": draw(st.integers(1, 2))}
    return c


def enum_purity_all_kinds(tier):
    """One representative configuration of EVERY runnable estimator kind, on data with gaps /
    outliers, as a DataFrame and as a Series, with a fixed interleaving that repeats every call."""
    base = {"values": [7.0, 9.5, 6.25, 11.0, 8.0, 12.5, 9.0, 13.25, 10.5, 14.0], "start": 3, "index_kind": "range", "seed": 11, "rs": 5,
            "order": [0, 1, 0, 2, 1, 3, 2, 3, 4, 4, 5, 5], "marks": [4, 11, 17], "int_valued": False, "n_jobs": 1}
    for sp in pools.FORECASTER_ENUM:
        yield dict(base, family="forecaster", spec=sp, as_frame=False, container="nested")
    for sp in panelpool.SERIES_TRANSFORMER_ENUM:
        for fr in (False, True):
            yield dict(base, family="series_transformer", spec=sp, as_frame=fr, container="nested")
    for k in panelpool.PANEL_TRANSFORMERS:
        for cont in ("nested", "numpy3d"):
            for ni in (N_INTERVALS if k in ("riseg", "rife") else (None,)):
                yield dict(base, family="panel_transformer", spec={"kind": k} if ni is None else {"kind": k, "n_intervals": ni},
                           as_frame=False, container=cont)
    for k in panelpool.CLASSIFIERS + ("tsfr",):
        for cont in ("nested", "numpy3d"):
            yield dict(base, family="panel_estimator", spec={"kind": k, "n_columns": 1}, as_frame=True, container=cont)


def enum_reproducible_all_kinds(tier):
    """Every runnable estimator kind: an equal-parameter twin that was fitted before on other
    data, a pickled copy, on three fixed data sets."""
    for k in range(4):
        for c in enum_purity_all_kinds(tier):
            # k odd: classifiers were trained before on the same panel with flipped labels (and
            # without exact duplicates, which make some dictionary classifiers fail at apply time)
            # k >= 2: integer-valued observations (counts)
            yield dict(c, order=[0, 1 + (k % 2)], seed=c["seed"] + 101 * k, rs=c["rs"] + k, values=c["values"][k:] + c["values"][:k],
                       as_frame=c["as_frame"] and k % 2 == 0, int_valued=k >= 2)


def subchecks():
    return [
        SubCheck("reproducible_every_kind", oracle_reproducible, enumerate_cases=enum_reproducible_all_kinds, shards_quick=16, shards_thorough=16,
                 exhaustive=True),
        SubCheck("purity_every_kind", oracle_purity, enumerate_cases=enum_purity_all_kinds, shards_quick=16, shards_thorough=16, exhaustive=True),
        SubCheck("purity_and_repeatability", oracle_purity, cases(), quick=700, thorough=10000, shards_quick=10, shards_thorough=16),
        SubCheck("reproducibility_pickle_n_jobs", oracle_reproducible, cases(reproducible=True), quick=400, thorough=6000, shards_quick=12, shards_thorough=16),
        SubCheck("n_jobs_invariance", oracle_n_jobs, n_jobs_cases(), quick=96, thorough=1600, shards_quick=16, shards_thorough=16),
    ]


SELECTORS = {}
