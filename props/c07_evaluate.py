"""C07 - evaluate() reports what an honest per-fold loop would give (DESIGN 2/C07)."""
import numpy as np
import pandas as pd
from hypothesis import strategies as st

from harness import doubles, gen, pools
from harness.runner import D, Raised, SubCheck, sut, unexpected

PROPERTY_ID = "C07"
LEVEL = "exploration"
RULE = (
    "generated (forecaster: recording double / naive / trend / recursive reduction with X; "
    "expanding, sliding or single-window splitter with start_with_window=True; series; "
    "strategy refit|update; symmetric and asymmetric metrics; optional X; return_data; fresh or "
    "already-fitted forecaster instance); oracle = an independently written honest per-fold "
    "loop, compared row by row, plus the no-leakage invariant over the recording forecaster's "
    "call log. non-trivial = >= 2 folds and an asymmetric metric; distinct = distinct JSON"
)
ASSUMPTIONS = [
    "splitters are driven with start_with_window=True only (evaluate's documented precondition)",
    "scores are compared with rtol 1e-12 (same operations in both runs)",
]

from sktime.forecasting.base import ForecastingHorizon  # noqa: E402
from sktime.forecasting.model_evaluation import evaluate  # noqa: E402
from sktime.forecasting.model_selection import (  # noqa: E402
    ExpandingWindowSplitter,
    SingleWindowSplitter,
    SlidingWindowSplitter,
)
from sktime.performance_metrics.forecasting import (  # noqa: E402
    MeanAbsolutePercentageError,
    MeanSquaredError,
    make_forecasting_scorer,
)


def _signed(y_true, y_pred):
    return float(np.mean(np.asarray(y_true, dtype=float) - np.asarray(y_pred, dtype=float)))


def _nanflat(y_true, y_pred):
    # undefined (nan) for a flat multi-step forecast, like a correlation; a loss otherwise
    yp = np.asarray(y_pred, dtype=float)
    if len(yp) >= 2 and np.ptp(yp) == 0:
        return float("nan")
    return float(np.mean(np.abs(np.asarray(y_true, dtype=float) - yp)))


def _infover(y_true, y_pred):
    # unbounded (inf) when the first step is grossly over-forecast, like a log / ratio loss at a
    # zero; the mean absolute error otherwise
    yt, yp = np.asarray(y_true, dtype=float), np.asarray(y_pred, dtype=float)
    if yp[0] > 1.5 * yt[0]:
        return float("inf")
    return float(np.mean(np.abs(yt - yp)))


def _negmse(y_true, y_pred):
    # a score (greater is better) whose values are all negative: the negated squared error
    return -float(np.mean((np.asarray(y_true, dtype=float) - np.asarray(y_pred, dtype=float)) ** 2))


def _ratio(y_true, y_pred):
    # asymmetric in its arguments and direction-free
    return float(np.sum(np.asarray(y_pred, dtype=float)) / (1.0 + np.sum(np.abs(np.asarray(y_true, dtype=float)))))


def build_metric(name):
    if name in ("smape", "default"):  # "default": evaluate is called without a metric and documents sMAPE
        return MeanAbsolutePercentageError()
    if name == "mape_asym":
        return MeanAbsolutePercentageError(symmetric=False)
    if name == "mse":
        return MeanSquaredError()
    if name == "signed":
        return make_forecasting_scorer(_signed, name="signed")
    if name == "ratio":
        return make_forecasting_scorer(_ratio, name="ratio", greater_is_better=True)
    if name == "nanflat":
        return make_forecasting_scorer(_nanflat, name="nanflat")
    if name == "infover":
        return make_forecasting_scorer(_infover, name="infover")
    if name == "negmse":
        return make_forecasting_scorer(_negmse, name="negmse", greater_is_better=True)
    raise ValueError(name)


def raw_metric(name):
    """The metric as a plain function of (y_true, y_pred), written here: what a score 'is',
    independently of the scorer object handed to evaluate / the tuner."""
    def arr(v):
        return np.asarray(v, dtype=float)

    eps = np.finfo(np.float64).eps
    if name in ("smape", "default"):
        return lambda yt, yp: float(np.mean(2.0 * np.abs(arr(yt) - arr(yp)) / np.maximum(np.abs(arr(yt)) + np.abs(arr(yp)), eps)))
    if name == "mape_asym":
        return lambda yt, yp: float(np.mean(np.abs(arr(yt) - arr(yp)) / np.maximum(np.abs(arr(yt)), eps)))
    if name == "mse":
        return lambda yt, yp: float(np.mean((arr(yt) - arr(yp)) ** 2))
    if name == "signed":
        return _signed
    if name == "ratio":
        return _ratio
    if name == "nanflat":
        return _nanflat
    if name == "infover":
        return _infover
    if name == "negmse":
        return _negmse
    raise ValueError(name)


ASYM = ("mape_asym", "signed", "ratio")


def build_cv(c):
    if c["kind"] == "expanding":
        return ExpandingWindowSplitter(fh=c["fh"], initial_window=c["wl"], step_length=c["step"])
    if c["kind"] == "sliding":
        return SlidingWindowSplitter(fh=c["fh"], window_length=c["wl"], step_length=c["step"],
                                     initial_window=c.get("iw"))
    return SingleWindowSplitter(fh=c["fh"], window_length=c.get("wl"))


def build_data(case):
    n = case["n"]
    vals = [v + ((i * 37) % 11) / 7.0 for i, v in enumerate(case["values"][:n])]
    y = gen.build_series(vals, case["start"], case["index_kind"])
    if case.get("int_dtype"):
        # counts stored with an integer dtype: forecasts of them are still real numbers
        y = pd.Series(np.round(y.to_numpy()).astype("int64"), index=y.index)
    X = None
    if case["with_X"]:
        X = pd.DataFrame({"a": np.cos(np.arange(n) * 0.7) * 3.0 + 10.0, "b": (np.arange(n) % 5) * 1.0}, index=y.index)
    return y, X


def honest_loop(spec, cv, y, X, strategy, metric, prefit, raw=None):
    rows = []
    f = pools.build_forecaster(spec)
    if prefit:
        f.fit(y, X, fh=[1])
    for i, (train, test) in enumerate(cv.split(y)):
        y_train, y_test = y.iloc[train], y.iloc[test]
        cutoff = y_train.index[-1]
        X_train = X_test = None
        if X is not None:
            X_train = X.iloc[train]
            c_pos = train[-1]
            X_test = X.iloc[c_pos + 1: test[-1] + 1]
        fh = ForecastingHorizon(y_test.index, is_relative=False)
        if strategy == "refit":
            g = pools.build_forecaster(spec)
            g.fit(y_train, X_train, fh=fh)
        else:
            g = f
            if i == 0:
                g.fit(y_train, X_train, fh=fh)
            else:
                g.update(y_train, X_train)
        y_pred = g.predict(fh, X=X_test)
        rows.append({"score": (raw or metric)(y_test, y_pred), "cutoff": cutoff, "len_train_window": len(y_train),
                     "y_train": y_train, "y_test": y_test, "y_pred": y_pred})
    return rows


def ser_eq(a, b):
    return (isinstance(a, pd.Series) and isinstance(b, pd.Series) and list(a.index) == list(b.index)
            and np.allclose(a.to_numpy(dtype=float), b.to_numpy(dtype=float), rtol=1e-12, atol=0, equal_nan=True))


def oracle(case, ctx):
    discs = []
    y, X = build_data(case)
    spec, strategy = case["spec"], case["strategy"]
    cv = build_cv(case["cv"])
    metric = build_metric(case["metric"])
    n_folds = sut(lambda: len(list(build_cv(case["cv"]).split(y))))
    if isinstance(n_folds, Raised):
        raise AssertionError("generator produced an infeasible splitter: %r" % (n_folds,))
    exp = sut(honest_loop, spec, build_cv(case["cv"]), y, X, strategy, metric, case["prefit"], raw_metric(case["metric"]))
    if isinstance(exp, Raised):
        # the forecaster itself cannot handle this configuration: evaluate must not invent a result
        ctx.mark_rejected()
        ctx.label("honest_loop_raises:%s" % exp.type)
        f = pools.build_forecaster(spec)
        r = sut(evaluate, f, cv, y, X, strategy=strategy, scoring=(None if case["metric"] == "default" else metric))
        if not isinstance(r, Raised):
            discs.append(D("evaluate_returns_where_honest_loop_fails", "%s: honest loop raised %r" % (pools.describe(spec), exp)))
        return discs
    doubles.LOG.clear()
    f = pools.build_forecaster(spec)
    if case["prefit"]:
        f.fit(y, X, fh=[1])
        doubles.LOG.clear()
    yc, Xc = y.copy(), (None if X is None else X.copy())
    r = sut(evaluate, f, cv, yc, Xc, strategy=strategy, scoring=(None if case["metric"] == "default" else metric), return_data=case["return_data"])
    ctx.label(pools.describe(spec))
    ctx.label(strategy)
    ctx.label(case["metric"])
    ctx.label("folds=%s" % (n_folds if n_folds < 3 else "3+"))
    if min(case["cv"]["fh"]) <= 0:
        ctx.label("horizon_reaches_back_into_training_window")
    ctx.mark_nontrivial(n_folds >= 2 and case["metric"] in ASYM)
    if isinstance(r, Raised):
        return [D("evaluate_raised:%s@%s" % (r.type, r.where), "%s %s %s: %s" % (pools.describe(spec), case["cv"], strategy, r.msg))]
    if not isinstance(r, pd.DataFrame):
        return [D("evaluate_type", type(r).__name__)]
    if len(r) != len(exp):
        return [D("row_count", "evaluate has %d rows, splitter yields %d" % (len(r), len(exp)))]
    col = "test_" + metric.name
    if col not in r.columns:
        return [D("score_column_missing", "columns %s" % list(r.columns))]
    for i, e in enumerate(exp):
        row = r.iloc[i]
        if not np.isclose(float(row[col]), float(e["score"]), rtol=1e-12, atol=0, equal_nan=True):
            discs.append(D("score_differs", "%s %s metric=%s fold %d: evaluate %r honest %r"
                           % (pools.describe(spec), strategy, case["metric"], i, float(row[col]), float(e["score"]))))
        if int(row["cutoff"]) != int(e["cutoff"]):
            discs.append(D("cutoff_differs", "fold %d: evaluate %r honest %r" % (i, row["cutoff"], e["cutoff"])))
        if int(row["len_train_window"]) != e["len_train_window"]:
            discs.append(D("len_train_window_differs", "fold %d: %r vs %r" % (i, row["len_train_window"], e["len_train_window"])))
        if case["return_data"]:
            for k in ("y_train", "y_test", "y_pred"):
                if k not in r.columns or not ser_eq(row[k], e[k]):
                    discs.append(D("return_data_differs:%s" % k, "fold %d" % i))
    if not case["return_data"] and any(k in r.columns for k in ("y_train", "y_test", "y_pred")):
        discs.append(D("return_data_columns_present", str(list(r.columns))))
    # no leakage (recording forecaster): before fold k's predict nothing at/after its first test label was given
    if spec["kind"] == "recording":
        folds = list(build_cv(case["cv"]).split(y))
        seen_max = None
        k = 0
        for ent in list(doubles.LOG):
            if ent[0] in ("fit", "update"):
                lab = [int(v) for v in ent[2].index]
                if ent[3] is not None:
                    lab += [int(v) for v in ent[3].index]
                if lab:
                    seen_max = max(lab) if seen_max is None else max(seen_max, max(lab))
            elif ent[0] == "predict":
                if k < len(folds):
                    first_test = int(y.index[folds[k][1][0]])
                    if seen_max is not None and seen_max >= first_test:
                        discs.append(D("future_leak", "fold %d: forecaster had seen label %d before predicting %d" % (k, seen_max, first_test)))
                    want = [int(y.index[p]) - int(y.index[folds[k][0][-1]]) for p in folds[k][1]]
                    if ent[3] != want:
                        discs.append(D("predict_horizon", "fold %d: predicted steps %s expected %s" % (k, ent[3], want)))
                k += 1
        if k != len(folds):
            discs.append(D("predict_calls", "%d predict calls for %d folds" % (k, len(folds))))
    # caller's data untouched
    if not y.equals(yc) or (X is not None and not X.equals(Xc)):
        discs.append(D("caller_data_modified", "evaluate changed y or X"))
    return discs


def fc_specs():
    return st.one_of(
        st.just({"kind": "recording", "tag": 1}),
        st.just({"kind": "recording", "tag": 1}),
        pools.naive_specs(),
        pools.trend_specs(),
        st.builds(lambda wl, reg: {"kind": "reduce", "strategy": "recursive", "wl": wl, "reg": reg, "scitype": "tabular"},
                  st.integers(1, 4), st.sampled_from(["linear", "knn"])),
        # forecasters that define their own update (its default differs from the base class's):
        # under strategy="update" the later folds are whatever forecaster.update(window) gives
        st.builds(lambda d: {"kind": "gridsearch", "base": {"kind": "trend", "degree": d, "intercept": True},
                             "grid": {"degree": [d, d + 1]}, "cv_wl": 5, "cv_step": 2, "cv_fh": 1}, st.integers(0, 1)),
        st.builds(lambda d, wl: {"kind": "online_ensemble", "members": [{"kind": "trend", "degree": d, "intercept": True},
                                                                      {"kind": "naive", "strategy": "mean", "sp": 1, "wl": wl}]},
                  st.integers(0, 2), st.integers(2, 4)),
    )


@st.composite
def cases(draw):
    spec = draw(fc_specs())
    fh = draw(gen.fh_steps(max_step=5, max_size=3))
    base = pools.min_length(spec, fh[-1]) + 2
    kind = draw(st.sampled_from(["expanding", "sliding", "sliding", "single"]))
    wl = draw(st.integers(base, base + 8))
    n = draw(st.integers(wl + fh[-1] + 1, wl + fh[-1] + 14))
    back = draw(st.sampled_from([None, None, None, [0], [-1, 0], [-2]])) if spec["kind"] in ("naive", "trend") and kind != "single" and not spec.get("wl") else None
    if back and wl >= 4:
        # a horizon that also reaches back into the training window (steps <= 0): those time
        # points are test points like the others
        fh = sorted(set(back + fh))
    cv = {"kind": kind, "fh": fh, "wl": wl, "step": draw(st.integers(1, 5))}
    if kind == "sliding" and draw(st.integers(0, 3)) == 0 and wl + 1 + fh[-1] <= n:
        cv["iw"] = draw(st.integers(wl + 1, n - fh[-1]))
    if kind == "single" and draw(st.booleans()):
        cv["wl"] = None
    with_X = spec["kind"] in ("recording", "reduce") and draw(st.booleans())
    return {
        "spec": spec, "cv": cv, "n": n,
        "values": draw(gen.series_values(n, n, lo=5.0, hi=300.0)),
        "start": draw(gen.index_start), "index_kind": draw(gen.index_kind),
        "with_X": with_X, "strategy": draw(st.sampled_from(["refit", "update"])),
        "metric": draw(st.sampled_from(["smape", "mape_asym", "signed", "ratio", "mse", "default"])),
        "return_data": draw(st.booleans()), "prefit": draw(st.integers(0, 3)) == 0, "int_dtype": draw(st.integers(0, 3)) == 0,
    }


def subchecks():
    return [SubCheck("rows_match_honest_loop", oracle, cases(), quick=2400, thorough=20000, shards_quick=12, shards_thorough=16)]


SELECTORS = {}
