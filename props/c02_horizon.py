"""C02 - ForecastingHorizon conversions (DESIGN 2/C02)."""
import numpy as np
import pandas as pd
from hypothesis import strategies as st

from harness import gen
from harness.runner import D, Raised, SubCheck, sut, unexpected

PROPERTY_ID = "C02"
LEVEL = "exploration"
RULE = (
    "generated duplicate-free integer step sets (shuffled; as int, list, int32/int64 array, "
    "int64 Index, RangeIndex), relative and absolute, with integer cutoffs, checked against "
    "plain integer arithmetic; plus generated malformed horizons that must be rejected. "
    "non-trivial = the steps straddle zero, or the cutoff is negative, or the input was "
    "unsorted; distinct = distinct canonical JSON of the case"
)
ASSUMPTIONS = [
    "float- and object-dtype pd.Index horizons are not generated (Int64Index shim cannot "
    "reproduce pandas-1 type equality; DESIGN 0.2)",
    "integral floats ([1.0, 2.0]) count as accepted input; bools are not generated",
]
EXCLUDED = ["float/object pd.Index horizons", "datetime/period horizons"]

from sktime.forecasting.base import ForecastingHorizon  # noqa: E402
from sktime.utils.validation.forecasting import check_fh  # noqa: E402


def vals(x):
    if isinstance(x, ForecastingHorizon):
        x = x.to_pandas()
    return [int(v) for v in np.asarray(x).tolist()]


def build(case, steps=None, rel=None):
    steps = case["steps"] if steps is None else steps
    rel = case["is_relative"] if rel is None else rel
    kind = case["kind"]
    if kind == "fh":
        kind = "list"
    if kind == "range_desc":
        d = steps[0] - steps[1] if len(steps) > 1 else 1
        arg = pd.RangeIndex(steps[0], steps[-1] - 1, -d)
        assert list(arg) == list(steps)
    else:
        arg = gen.build_fh(steps, kind)
    return ForecastingHorizon(arg, is_relative=rel)


def oracle_conversions(case, ctx):
    discs = []
    steps, c, rel = case["steps"], case["cutoff"], case["is_relative"]
    s = sorted(steps)
    fh = sut(build, case)
    if isinstance(fh, Raised):
        return [D("valid_horizon_rejected:%s" % fh.type, "steps=%s kind=%s: %s" % (steps, case["kind"], fh.msg))]
    ctx.label(case["kind"])
    ctx.label("relative" if rel else "absolute")
    ctx.mark_nontrivial((s[0] <= 0 < s[-1]) or c < 0 or steps != s)

    def chk(kind, got, want):
        if isinstance(got, Raised):
            discs.append(unexpected(got, kind))
        elif got != want:
            discs.append(D(kind, "steps=%s cutoff=%s rel=%s: got %s want %s" % (steps, c, rel, got, want)))

    chk("stored_not_sorted", sut(lambda: vals(fh)), s)
    chk("len", sut(lambda: len(fh)), len(s))
    chk("is_relative_flag", sut(lambda: fh.is_relative), rel)
    if rel:
        relsteps = s
        ab = sut(fh.to_absolute, c)
        chk("to_absolute", sut(lambda: vals(ab)), [c + v for v in s])
        chk("to_absolute_flag", sut(lambda: ab.is_relative), False)
        chk("abs_rel_roundtrip", sut(lambda: vals(ab.to_relative(c))), s)
        chk("abs_rel_roundtrip_flag", sut(lambda: ab.to_relative(c).is_relative), True)
        chk("to_relative_identity", sut(lambda: vals(fh.to_relative(c))), s)
    else:
        relsteps = [v - c for v in s]
        r = sut(fh.to_relative, c)
        chk("to_relative", sut(lambda: vals(r)), relsteps)
        chk("to_relative_flag", sut(lambda: r.is_relative), True)
        chk("rel_abs_roundtrip", sut(lambda: vals(r.to_absolute(c))), s)
        chk("to_absolute_identity", sut(lambda: vals(fh.to_absolute(c))), s)
    start = case["start"]
    chk("to_absolute_int", sut(lambda: vals(fh.to_absolute_int(start, c))), [c + v - start for v in relsteps])
    # partition at step 0
    ins = [v for v, r_ in zip(s, relsteps) if r_ <= 0]
    oos = [v for v, r_ in zip(s, relsteps) if r_ > 0]
    chk("to_in_sample", sut(lambda: vals(fh.to_in_sample(c))), ins)
    chk("to_out_of_sample", sut(lambda: vals(fh.to_out_of_sample(c))), oos)
    chk("in_sample_flag", sut(lambda: fh.to_in_sample(c).is_relative), rel)
    chk("is_all_in_sample", sut(lambda: bool(fh.is_all_in_sample(c))), len(oos) == 0)
    chk("is_all_out_of_sample", sut(lambda: bool(fh.is_all_out_of_sample(c))), len(ins) == 0)
    chk("to_indexer", sut(lambda: vals(fh.to_indexer(c))), [r_ - 1 for r_ in relsteps])
    chk("to_indexer_from_first", sut(lambda: vals(fh.to_indexer(c, from_cutoff=False))),
        [r_ - relsteps[0] for r_ in relsteps])
    if rel:
        # relative horizons need no cutoff for these
        chk("to_indexer_nocutoff", sut(lambda: vals(fh.to_indexer())), [r_ - 1 for r_ in relsteps])
        chk("is_all_oos_nocutoff", sut(lambda: bool(fh.is_all_out_of_sample())), len(ins) == 0)
        cf = sut(check_fh, gen.build_fh(steps, case["kind"] if case["kind"] not in ("fh", "range_desc") else "list"))
        chk("check_fh", sut(lambda: vals(cf)), s)
        chk("check_fh_relative", sut(lambda: cf.is_relative), True)
    # caching must not conflate cutoffs
    c2 = c + case["delta"]
    if rel:
        chk("to_absolute_second_cutoff", sut(lambda: vals(fh.to_absolute(c2))), [c2 + v for v in s])
    else:
        chk("to_relative_second_cutoff", sut(lambda: vals(fh.to_relative(c2))), [v - c2 for v in s])
    # a converted horizon is a horizon like any other: converting IT with another cutoff
    # answers for that cutoff (it does not remember what it was made from), and so do the
    # in-sample / out-of-sample parts
    if rel:
        chk("converted_horizon_with_second_cutoff", sut(lambda: vals(ab.to_relative(c2))), [c + v - c2 for v in s])
        chk("converted_horizon_indexer_second_cutoff", sut(lambda: vals(ab.to_indexer(c2))), [c + v - c2 - 1 for v in s])
    else:
        chk("converted_horizon_with_second_cutoff", sut(lambda: vals(r.to_absolute(c2))), [c2 + v for v in relsteps])
        chk("converted_horizon_absolute_int_second_cutoff", sut(lambda: vals(r.to_absolute_int(start, c2))), [c2 + v - start for v in relsteps])
        if oos:
            chk("converted_part_with_second_cutoff", sut(lambda: vals(r.to_out_of_sample(c).to_absolute(c2))), [c2 + v for v in relsteps if v > 0])
    # the horizon itself is unchanged by all of the above
    chk("mutated", sut(lambda: vals(fh)), s)
    return discs


def _mk_bad(case):
    k = case["bad"]
    base = case["steps"]
    if k == "dup_list":
        return base + [base[case["i"] % len(base)]]
    if k == "dup_array":
        return np.array(base + [base[case["i"] % len(base)]], dtype="int64")
    if k == "dup_index":
        return pd.Index(np.array(base + [base[case["i"] % len(base)]], dtype="int64"))
    if k == "dup_index_sorted":
        return pd.Index(np.array(sorted(base + [base[case["i"] % len(base)]]), dtype="int64"))
    if k in ("dup_list_sorted", "dup_array_sorted"):
        v = sorted(base + [base[case["i"] % len(base)]])
        return v if k == "dup_list_sorted" else np.array(v, dtype="int64")
    if k in ("dup_list_gap", "dup_array_gap"):
        # ordered steps in which every repeated step is made up for by a missing one
        # (same first and last value and same count as a run of consecutive steps)
        a, n = min(base), len(base) + 2
        run = list(range(a, a + n))
        j = 1 + case["i"] % (n - 2)
        run[j] = run[j - 1]
        return run if k == "dup_list_gap" else np.array(run, dtype="int64")
    if k == "frac_list":
        b = [float(v) for v in base]
        b[case["i"] % len(b)] += case["frac"]
        return b
    if k == "frac_array":
        b = np.array(base, dtype="float64")
        b[case["i"] % len(b)] += case["frac"]
        return b
    if k == "str":
        return "abc"
    if k == "float_scalar":
        return base[0] + case["frac"]
    if k == "tuple":
        return tuple(base)
    if k == "set":
        return set(base)
    if k == "dict":
        return {v: v for v in base}
    if k == "none":
        return None
    if k == "object":
        return object()
    if k == "str_list":
        return ["a"] + ["b%d" % i for i in range(len(base) - 1)]
    raise ValueError(k)


BAD_VALUE_ERR = ("dup_list", "dup_array", "dup_index", "dup_index_sorted", "dup_list_sorted", "dup_array_sorted", "dup_list_gap", "dup_array_gap")
BAD_TYPE_ERR = ("str", "float_scalar", "tuple", "set", "dict", "none", "object")
BAD_EITHER = ("frac_list", "frac_array", "str_list")


def oracle_rejects(case, ctx):
    discs = []
    k = case["bad"]
    ctx.label(k)
    ctx.mark_nontrivial(True)
    if k == "empty_check_fh":
        for empty in ([], np.array([], dtype="int64")):
            r = sut(check_fh, empty)
            if not (isinstance(r, Raised) and r.is_a(ValueError)):
                discs.append(D("empty_horizon_accepted", "check_fh(%r) -> %r" % (empty, r)))
        return discs
    if k == "absolute_enforce_relative":
        fh = ForecastingHorizon(case["steps"], is_relative=False)
        r = sut(check_fh, fh, enforce_relative=True)
        if not (isinstance(r, Raised) and r.is_a(ValueError)):
            discs.append(D("absolute_accepted_as_relative", "%r" % (r,)))
        r2 = sut(check_fh, ForecastingHorizon(case["steps"], is_relative=True), enforce_relative=True)
        if isinstance(r2, Raised):
            discs.append(D("valid_horizon_rejected:%s" % r2.type, r2.msg))
        return discs
    if k == "is_relative_not_bool":
        r = sut(ForecastingHorizon, case["steps"], is_relative=1)
        if not (isinstance(r, Raised) and r.is_a(TypeError)):
            discs.append(D("is_relative_non_bool_accepted", "%r" % (r,)))
        return discs
    bad = _mk_bad(case)
    for rel in (True, False):
        r = sut(ForecastingHorizon, bad, is_relative=rel)
        want = (ValueError,) if k in BAD_VALUE_ERR else (TypeError,) if k in BAD_TYPE_ERR else (ValueError, TypeError)
        if isinstance(r, Raised):
            if r.is_a(*want):
                ctx.mark_rejected()
            else:
                discs.append(D("wrong_rejection:%s:%s" % (k, r.type), "%r -> %r" % (bad, r)))
        else:
            discs.append(D("malformed_horizon_accepted:%s" % k, "%r accepted as %r" % (bad, sut(lambda: vals(r)))))
    r = sut(check_fh, bad)
    if not isinstance(r, Raised):
        discs.append(D("malformed_horizon_accepted:%s" % k, "check_fh(%r) accepted" % (bad,)))
    elif not r.is_a(ValueError, TypeError):
        discs.append(D("wrong_rejection:%s:%s" % (k, r.type), "check_fh %r -> %r" % (bad, r)))
    # the twin without the offending aspect is accepted
    if k in BAD_VALUE_ERR + BAD_EITHER:
        ok = sut(ForecastingHorizon, [float(v) for v in case["steps"]] if k.startswith("frac") else list(case["steps"]))
        if isinstance(ok, Raised):
            discs.append(D("valid_horizon_rejected:%s" % ok.type, "%s: %s" % (case["steps"], ok.msg)))
        elif vals(ok) != sorted(case["steps"]):
            discs.append(D("stored_not_sorted", "twin stored %s" % vals(ok)))
    return discs


@st.composite
def conv_cases(draw, big=False):
    lim = 10 ** 6 if big else 50
    kind = draw(st.sampled_from(["int", "list", "array", "array32", "index", "range", "range_desc", "fh"]))
    if kind == "int":
        steps = [draw(st.integers(-lim, lim))]
    elif kind in ("range", "range_desc"):
        a = draw(st.integers(-lim, lim))
        d = draw(st.integers(1, 5))
        k = draw(st.integers(1, 12))
        steps = [a + i * d for i in range(k)]
        if kind == "range_desc":
            steps = steps[::-1]  # RangeIndex with a negative step
    else:
        anchor = draw(st.sampled_from([0, 0, draw(st.integers(-lim, lim))]))
        steps = draw(st.lists(st.integers(-12, 12).map(lambda v: v + anchor), min_size=1, max_size=12, unique=True))
        steps = list(draw(st.permutations(steps)))
    rel = draw(st.booleans())
    c = draw(st.integers(-1000, 1000))
    if not rel and draw(st.booleans()):
        # absolute horizons near the cutoff so that the partition is interesting
        steps = [v + c for v in steps]
    return {"steps": steps, "kind": kind, "is_relative": rel, "cutoff": c,
            "start": draw(st.integers(-1000, 1000)), "delta": draw(st.integers(1, 7))}


@st.composite
def reject_cases(draw):
    bad = draw(st.sampled_from(BAD_VALUE_ERR + BAD_TYPE_ERR + BAD_EITHER + (
        "empty_check_fh", "absolute_enforce_relative", "is_relative_not_bool")))
    steps = draw(st.lists(st.integers(-30, 30), min_size=1, max_size=8, unique=True))
    # steps / time points of any magnitude (integer time points are often large numbers)
    anchor = draw(st.sampled_from([0, 0, 0, 10 ** 5, -70000, 10 ** 6, 2 ** 40, -(10 ** 9)]))
    steps = [v + anchor for v in steps]
    return {"bad": bad, "steps": steps, "i": draw(st.integers(0, 7)),
            "frac": draw(st.sampled_from([0.5, 0.25, -0.5, 0.125, 1e-3, 0.999]))}


def subchecks():
    return [
        SubCheck("conversions", oracle_conversions, conv_cases(), quick=5000, thorough=200000,
                 shards_quick=4, shards_thorough=16),
        SubCheck("conversions_large", oracle_conversions, conv_cases(big=True), quick=1500, thorough=50000,
                 shards_quick=2, shards_thorough=8),
        SubCheck("rejects", oracle_rejects, reject_cases(), quick=2000, thorough=30000, shards_quick=2,
                 shards_thorough=8),
    ]


SELECTORS = {}

FUZZ = [("conversions", 60000), ("rejects", 30000)]
