"""C16 - fitted panel estimators treat instances independently and ignore the container (DESIGN 2/C16)."""
import numpy as np
import pandas as pd
from hypothesis import strategies as st

from harness import panelpool
from harness.runner import D, Raised, SubCheck, sut, unexpected

PROPERTY_ID = "C16"
LEVEL = "exploration"
RULE = (
    "generated training panels and apply-time panels for every runnable panel transformer, "
    "classifier (interval forests, BOSS family incl. seeded tie-breaking, MUSE, TDE member, column "
    "ensemble) and the forest regressor, fitted once per case; metamorphic oracles: permuting the "
    "instances permutes the output rows, a single instance gives the corresponding batch row, a "
    "sub-selection gives the matching rows, row count/order equal the input, and nested-DataFrame "
    "vs 3-D-array input (at fit and at apply time) give equal output. Apply panels contain "
    "duplicates of training instances with different labels so that exact ties occur; nested frames "
    "carry default, shifted, reversed, shuffled or string row labels and selections keep theirs; "
    "pad/truncate/interpolate also on unequal-length panels; plus an exhaustive grid over (series "
    "length x length-related parameter) for PAA, slope, interval / sliding-window segmenters and "
    "the interpolator. non-trivial "
    "= >= 3 apply instances with a non-identity permutation; distinct = distinct JSON"
)
ASSUMPTIONS = ["float outputs compared with rtol 1e-9; labels exactly"]
EXCLUDED = ["SFA (returns bags, not a frame)", "WEASEL / TDE ensemble / ROCKET classifier / MiniRocket (do not run on this stack)"]


def norm_out(o):
    """Normalise any estimator output to a list of 1-d float arrays / label arrays, one per row."""
    if isinstance(o, pd.DataFrame):
        rows = []
        for i in range(o.shape[0]):
            parts = []
            for j in range(o.shape[1]):
                v = o.iloc[i, j]
                parts.append(np.asarray(v, dtype=float).ravel() if isinstance(v, (pd.Series, np.ndarray)) else np.array([float(v)]))
            rows.append(np.concatenate(parts) if parts else np.array([]))
        return rows
    a = np.asarray(o)
    if a.dtype.kind in "OUS":
        return [np.array([str(v)]) for v in a] if a.ndim == 1 else [np.array([str(x) for x in r]) for r in a]
    a = a.astype(float)
    return [np.atleast_1d(r).ravel() for r in a]


def rows_equal(a, b):
    if len(a) != len(b):
        return "row counts %d vs %d" % (len(a), len(b))
    for i, (x, y) in enumerate(zip(a, b)):
        if x.shape != y.shape:
            return "row %d shapes %s vs %s" % (i, x.shape, y.shape)
        if x.dtype.kind in "US":
            if not np.array_equal(x, y):
                return "row %d: %s vs %s" % (i, x.tolist(), y.tolist())
        elif not np.allclose(x, y, rtol=1e-9, atol=1e-12, equal_nan=True):
            return "row %d: %s vs %s" % (i, x[:6].tolist(), y[:6].tolist())
    return None


def build_est(case):
    fam, spec = case["family"], case["spec"]
    if fam == "transformer":
        return panelpool.build_panel_transformer(spec), ["transform"]
    est = panelpool.build_classifier(spec)
    if spec["kind"] == "tsfr":
        return est, ["predict"]
    return est, ["predict_proba", "predict"]


def data(case):
    spec = case["spec"]
    kind = spec["kind"]
    uni = kind in panelpool.UNIVARIATE_ONLY or (case["family"] == "estimator" and not panelpool.multivariate_ok(kind))
    c = 1 if uni else case["c"]
    if kind == "cec":
        c = spec.get("n_columns", 1)
    t = max(case["t"], panelpool.min_timepoints(kind) if case["family"] == "estimator" else 12)
    ntr = case["n_train"]
    Xtr = panelpool.panel_values(case["seed"], ntr, c, t)
    # duplicated training instances with different labels -> exact distance ties at apply time
    if case["dup"] and ntr >= 4:
        Xtr[1] = Xtr[0]
        Xtr[3] = Xtr[2]
    Xap = panelpool.panel_values(case["seed"] + 1, case["n_apply"], c, t)
    for i in range(case["n_apply"]):
        if case["copy_mask"][i % len(case["copy_mask"])]:
            Xap[i] = Xtr[i % ntr]
    if kind == "plateau":
        # runs of missing values of instance-specific position and length (what the finder reports)
        for A in (Xtr, Xap):
            for i in range(len(A)):
                a0 = 1 + (3 * i + case["seed"]) % 5
                A[i, 0, a0: a0 + 2 + i % 3] = np.nan
                if i % 2:
                    A[i, 0, a0 + 6: a0 + 8] = np.nan
    if case.get("whole_rows") and not case.get("int_panel") and kind != "plateau":
        # some instances hold whole numbers only (counts) next to real-valued ones; a nested
        # frame stores their cells with an integer dtype (see wrap), the 3-D array is float
        for A in (Xtr, Xap):
            for i in range(len(A)):
                if (i + case["seed"]) % 3 != 1:
                    A[i] = np.round(A[i] * 3)
    if case.get("int_panel") and kind != "plateau":
        # integer-valued observations stored as int64 (counts)
        Xtr = np.round(Xtr * 3).astype("int64")
        Xap = np.round(Xap * 3).astype("int64")
    if case.get("static_col") and kind in STATIC_OK:
        # one more variable that is constant over time within each instance; wrap() stores it as a
        # primitive (non-nested) column of the nested frame, the 3-D array repeats it over time
        def add(X, k):
            v = np.round(np.cos(np.arange(len(X)) * 1.7 + k) * 3, 0 if case.get("int_panel") else 3).astype(X.dtype)
            return np.concatenate([X, np.repeat(v[:, None, None], X.shape[2], axis=2)], axis=1)

        Xtr, Xap = add(Xtr, 0), add(Xap, 1)
    if kind == "tsfr":
        y = np.round(np.linspace(-1.0, 2.0, ntr) + 0.1 * np.cos(np.arange(ntr)), 4)
    else:
        y = panelpool.labels_for(ntr, case["label_kind"], 2)
    return Xtr, y, Xap


STATIC_OK = ("rocket", "itde")  # accept nested frames that also have primitive columns
STATIC = [False]


UNEQUAL_OK = ("pad", "trunc", "interp")


def cut(X3, lens):
    """Nested frame whose instance i keeps only its first lens[i] time points."""
    n, c, _ = X3.shape
    return pd.DataFrame({"dim_%d" % j: [pd.Series(X3[i, j, : lens[i]].copy()) for i in range(n)] for j in range(c)})


WHOLE = [False]  # store the cells of whole-number instances with an integer dtype (set per case)
COL_LABELS = [None]  # names of the nested frame's columns (set per case): None = default names, or integers that are not the positions
CELL_STEP = [0]  # difference between the time index origins of consecutive instances (set per case)
CELL_ORIGIN = [0]  # time index origin of the Series cells of nested frames built by wrap() (set per case)


def wrap(X3, container, labels=None, lens=None):
    if lens is not None:
        return cut(X3, lens)
    if container != "nested":
        return X3.copy()
    X = panelpool.to_nested(X3)
    if CELL_ORIGIN[0] or CELL_STEP[0]:
        # the cells' own time index need not start at 0, nor at the same label in every
        # instance (windows cut out of one long recording keep their labels): the data are the values
        for j in range(X.shape[1]):
            for i in range(X.shape[0]):
                c = X.iat[i, j]
                o = CELL_ORIGIN[0] + i * CELL_STEP[0]
                c.index = pd.RangeIndex(o, o + len(c))
    if WHOLE[0] and X3.dtype.kind == "f":
        for j in range(X.shape[1]):
            for i in range(X.shape[0]):
                v = X.iat[i, j]
                if isinstance(v, pd.Series) and len(v) and np.all(np.isfinite(v.to_numpy())) and np.all(v.to_numpy() == np.round(v.to_numpy())):
                    X.iat[i, j] = v.astype("int64")
    if COL_LABELS[0] and X.shape[1] >= 2:
        # column names are not data either: integer names that differ from the positions (a
        # column subset / reordering of an integer-named frame); a 3-D array knows positions only
        k = X.shape[1]
        X.columns = pd.Index(list(range(k - 1, -1, -1)) if COL_LABELS[0] == "int_reversed" else list(range(1, k + 1)))
    if STATIC[0]:
        X[X.columns[-1]] = X3[:, -1, 0].copy()
    if labels is not None:
        # row labels are not data: a shuffled / filtered training frame that was not re-indexed
        n = len(X)
        lab = {"shifted": list(range(5, 5 + n)), "reversed": list(range(n - 1, -1, -1)),
               "shuffled": [(3 * i + 1) % n if n % 3 else (i + 1) % n for i in range(n)],
               "strings": ["r%02d" % ((7 * i) % 100) for i in range(n)]}[labels]
        X.index = pd.Index(lab)
    return X


def oracle(case, ctx):
    spec = case["spec"]
    CELL_ORIGIN[0] = int(case.get("cell_origin") or 0)
    CELL_STEP[0] = int(case.get("cell_step") or 0)
    COL_LABELS[0] = case.get("col_labels")
    WHOLE[0] = bool(case.get("whole_rows")) and not case.get("int_panel")
    if WHOLE[0]:
        ctx.label("integer_typed_cells_next_to_float_cells")
    if COL_LABELS[0]:
        ctx.label("integer_column_names_" + COL_LABELS[0])
    if CELL_STEP[0]:
        ctx.label("per_instance_time_labels")
    if CELL_ORIGIN[0]:
        ctx.label("cell_time_index_origin_%d" % CELL_ORIGIN[0])
    Xtr, y, Xap = data(case)
    STATIC[0] = bool(case.get("static_col")) and spec["kind"] in STATIC_OK
    if STATIC[0]:
        ctx.label("primitive_column")
    n = len(Xap)
    perm = [p % n for p in case["perm"]][:n]
    perm = list(dict.fromkeys(perm)) + [i for i in range(n) if i not in perm]
    ctx.label(spec["kind"])
    ctx.mark_nontrivial(n >= 3 and perm != list(range(n)))
    est, methods = build_est(case)
    lens_tr = lens_ap = None
    if case["family"] == "transformer" and spec["kind"] in UNEQUAL_OK and case.get("unequal"):
        # panels of unequal-length series (nested frames only): every instance is still
        # mapped on its own, whichever other instances are in the batch
        T = Xtr.shape[2]
        floor = max(4, spec.get("upper") or 0)  # a requested truncation range must exist in every series
        lens_tr = [max(floor, T - (u % (T - 3))) for u in (case["unequal"] * len(Xtr))[: len(Xtr)]]
        lo = min(lens_tr)
        lens_ap = [min(T, lo + (u % (T - lo + 1))) for u in (case["unequal"][::-1] * n)[:n]]
        ctx.label("unequal_length_panel")
    if case.get("prefit"):
        # the same object was fitted before on another panel (more instances, longer series,
        # other labels): its answers depend on the LAST fit only
        X0 = panelpool.panel_values(case["seed"] + 23, len(Xtr) + 2, Xtr.shape[1], Xtr.shape[2] + 4)
        y0 = (np.linspace(3.0, 4.0, len(X0)) if spec["kind"] == "tsfr" else panelpool.labels_for(len(X0), "str", 2))
        sut(est.fit, wrap(X0, "nested"), y0)
        ctx.label("refitted")
    r = sut(est.fit, wrap(Xtr, case["fit_container"], case.get("fit_labels"), lens_tr), y)
    if case.get("fit_labels") and case["fit_container"] == "nested":
        ctx.label("fit_row_labels_%s" % case["fit_labels"])
    if isinstance(r, Raised):
        if not r.is_a(ValueError):
            return [D("fit_raised:%s:%s@%s" % (spec["kind"], r.type, r.where), r.msg)]
        # data-dependent refusal to fit (e.g. no discriminative feature left): nothing is "fitted"
        ctx.mark_rejected()
        ctx.label("fit_refused:%s:%s" % (spec["kind"], r.type))
        return []
    discs = []
    keep = bool(case.get("keep_labels")) and case["apply_container"] == "nested"
    if keep:
        ctx.label("selection_keeps_row_labels")

    def sel_wrap(rows):
        # a user's X.iloc[rows]: the nested frame keeps the row labels of the selection
        if lens_ap is not None:
            return cut(Xap[rows], [lens_ap[q] for q in rows])
        if keep:
            return wrap(Xap, "nested").iloc[rows]
        return wrap(Xap[rows], case["apply_container"])

    for m in methods:
        fn = getattr(est, m)
        Xobj = wrap(Xap, case["apply_container"], None, lens_ap)
        base = sut(fn, Xobj)
        if isinstance(base, Raised):
            discs.append(D("apply_raised:%s.%s:%s@%s" % (spec["kind"], m, base.type, base.where), base.msg))
            continue
        b = norm_out(base)
        if len(b) != n:
            discs.append(D("row_count:%s.%s" % (spec["kind"], m), "%d rows for %d instances" % (len(b), n)))
            continue
        # the SAME container object, its instances reordered in place between two calls
        if lens_ap is None and case.get("reorder_in_place", True):
            if isinstance(Xobj, np.ndarray):
                Xobj[:] = Xobj[perm].copy()
            else:
                cells = [[Xobj.iat[i, j] for j in range(Xobj.shape[1])] for i in perm]
                for r_, row in enumerate(cells):
                    for j, v in enumerate(row):
                        Xobj.iat[r_, j] = v
            again = sut(fn, Xobj)
            if isinstance(again, Raised):
                discs.append(D("apply_raised:%s.%s:%s" % (spec["kind"], m, again.type), "same container reordered in place: " + again.msg))
            else:
                d = rows_equal(norm_out(again), [b[i] for i in perm])
                if d:
                    discs.append(D("stale_result_for_container_changed_in_place:%s.%s" % (spec["kind"], m), "perm=%s: %s" % (perm, d)))
        # permutation
        p = sut(fn, sel_wrap(perm))
        if isinstance(p, Raised):
            discs.append(D("apply_raised:%s.%s:%s" % (spec["kind"], m, p.type), "permuted: " + p.msg))
        else:
            d = rows_equal(norm_out(p), [b[i] for i in perm])
            if d:
                discs.append(D("permutation_changes_rows:%s.%s" % (spec["kind"], m), "perm=%s: %s" % (perm, d)))
        # single instance
        i = case["single"] % n
        s = sut(fn, sel_wrap([i]))
        if isinstance(s, Raised):
            discs.append(D("apply_raised:%s.%s:%s" % (spec["kind"], m, s.type), "single instance: " + s.msg))
        else:
            d = rows_equal(norm_out(s), [b[i]])
            if d:
                discs.append(D("single_instance_differs_from_batch_row:%s.%s" % (spec["kind"], m), "instance %d: %s" % (i, d)))
        # sub-selection
        sel = sorted(set(q % n for q in case["subset"]))
        ss = sut(fn, sel_wrap(sel))
        if isinstance(ss, Raised):
            discs.append(D("apply_raised:%s.%s:%s" % (spec["kind"], m, ss.type), "subset: " + ss.msg))
        else:
            d = rows_equal(norm_out(ss), [b[q] for q in sel])
            if d:
                discs.append(D("subset_differs_from_batch_rows:%s.%s" % (spec["kind"], m), "subset %s: %s" % (sel, d)))
        # other container at apply time
        other = "numpy3d" if case["apply_container"] == "nested" else "nested"
        if lens_ap is not None:
            continue
        o = sut(fn, wrap(Xap, other))
        if isinstance(o, Raised):
            discs.append(D("apply_raised:%s.%s:%s" % (spec["kind"], m, o.type), "%s input: %s" % (other, o.msg)))
        else:
            d = rows_equal(norm_out(o), b)
            if d:
                discs.append(D("container_changes_output:%s.%s" % (spec["kind"], m), "apply-time %s vs %s: %s" % (other, case["apply_container"], d)))
    # other container at fit time
    if lens_tr is not None:
        return discs
    est2, _ = build_est(case)
    other = "numpy3d" if case["fit_container"] == "nested" else "nested"
    r2 = sut(est2.fit, wrap(Xtr, other, case.get("fit_labels")), y)
    if isinstance(r2, Raised):
        discs.append(D("fit_raised:%s:%s" % (spec["kind"], r2.type), "%s input at fit: %s" % (other, r2.msg)))
    else:
        for m in methods:
            a = sut(getattr(est, m), wrap(Xap, case["apply_container"]))
            b2 = sut(getattr(est2, m), wrap(Xap, case["apply_container"]))
            if isinstance(a, Raised) or isinstance(b2, Raised):
                continue
            d = rows_equal(norm_out(b2), norm_out(a))
            if d:
                discs.append(D("container_at_fit_changes_output:%s.%s" % (spec["kind"], m), d))
    return discs


@st.composite
def cases(draw, family):
    if family == "transformer":
        kind = draw(st.sampled_from(list(panelpool.PANEL_TRANSFORMERS)))
        spec = {"kind": kind, "random_state": draw(st.integers(0, 50))}
        spec["num_intervals"] = draw(st.integers(1, 7))
        spec["n_intervals"] = draw(st.one_of(st.integers(1, 4), st.sampled_from(["random", "sqrt"])))
        if spec["n_intervals"] != "random":
            # intervals may be as short as a single time point
            spec["min_length"] = draw(st.sampled_from([None, None, 1, 2]))
        spec["more_features"] = draw(st.booleans())
        spec["intervals"] = draw(st.integers(1, 5))
        spec["window_length"] = draw(st.integers(1, 7))
        spec["length"] = draw(st.integers(2, 25))
        spec["num_kernels"] = draw(st.integers(2, 12))
        if kind == "pad":
            spec["pad_length"] = 40
        if kind == "trunc" and draw(st.booleans()):
            spec.update({"lower": 2, "upper": 9})
    else:
        kind = draw(st.sampled_from(panelpool.CLASSIFIERS + ("tsfr", "iboss", "cboss", "boss")))
        spec = {"kind": kind, "random_state": draw(st.integers(0, 50)), "n_columns": draw(st.integers(1, 2))}
    n_apply = draw(st.integers(2, 6))
    if draw(st.integers(0, 3)) == 0:
        spec["_vsp"] = True  # configured through set_params on an instance built with other values
    return {
        "family": family, "spec": spec, "seed": draw(st.integers(0, 10 ** 6)),
        "n_train": draw(st.integers(6, 10)), "n_apply": n_apply, "c": draw(st.integers(1, 2)), "t": draw(st.integers(12, 28)),
        "dup": draw(st.booleans()), "copy_mask": draw(st.lists(st.booleans(), min_size=1, max_size=6)),
        "label_kind": draw(st.sampled_from(["int", "str", "int_gap"])),
        "perm": draw(st.permutations(list(range(6)))), "single": draw(st.integers(0, 5)),
        "subset": draw(st.lists(st.integers(0, 5), min_size=1, max_size=4)),
        "fit_container": draw(st.sampled_from(["nested", "numpy3d"])),
        "apply_container": draw(st.sampled_from(["nested", "numpy3d"])),
        "keep_labels": draw(st.booleans()), "prefit": draw(st.integers(0, 3)) == 0, "cell_origin": draw(st.sampled_from([0, 0, 3, -2])), "static_col": draw(st.booleans()), "cell_step": draw(st.sampled_from([0, 0, 0, 3, 7])), "col_labels": draw(st.sampled_from([None, None, "int_reversed", "int_shifted"])), "whole_rows": draw(st.integers(0, 3)) == 0, "int_panel": draw(st.integers(0, 4)) == 0,
        "unequal": draw(st.one_of(st.none(), st.lists(st.integers(0, 30), min_size=2, max_size=6))),
        "fit_labels": draw(st.sampled_from([None, None, "shifted", "reversed", "shuffled", "strings"])),
    }


GRID_KINDS = {"paa": "num_intervals", "slope": "num_intervals", "iseg": "intervals", "swseg": "window_length", "interp": "length"}


def enum_length_parameter_grid(tier):
    """Every (series length, length-related parameter) pair for the transformers whose output
    per instance is assembled in a loop over the batch: state carried from one instance to the
    next shows for particular length / parameter relations only."""
    tmax = 24 if tier == "quick" else 40
    for kind, pname in GRID_KINDS.items():
        for t in range(6, tmax + 1):
            for v in range(1, (t if kind != "interp" else t + 6) + 1):
                if kind == "slope" and v > t // 2:
                    continue
                yield {"kind": kind, "param": pname, "t": t, "value": v}


def oracle_grid(case, ctx):
    kind = case["kind"]
    spec = {"kind": kind, case["param"]: case["value"], "random_state": 0}
    X3 = panelpool.panel_values(case["t"] * 131 + case["value"], 4, 1, case["t"])
    ctx.label(kind)
    ctx.mark_nontrivial(case["t"] % case["value"] != 0)
    est = panelpool.build_panel_transformer(spec)
    r = sut(est.fit, X3.copy())
    if isinstance(r, Raised):
        if r.is_a(ValueError):  # documented refusal of a parameter that does not fit the length
            ctx.mark_rejected()
            return []
        return [D("fit_raised:%s:%s@%s" % (kind, r.type, r.where), "t=%d %s=%d: %s" % (case["t"], case["param"], case["value"], r.msg))]
    base = sut(est.transform, X3.copy())
    if isinstance(base, Raised):
        return [D("apply_raised:%s.transform:%s@%s" % (kind, base.type, base.where), "t=%d %s=%d: %s" % (case["t"], case["param"], case["value"], base.msg))]
    b = norm_out(base)
    discs = []
    if len(b) != 4:
        return [D("row_count:%s.transform" % kind, "%d rows for 4 instances (t=%d %s=%d)" % (len(b), case["t"], case["param"], case["value"]))]
    for i in range(4):
        s1 = sut(est.transform, X3[[i]].copy())
        if isinstance(s1, Raised):
            discs.append(D("apply_raised:%s.transform:%s" % (kind, s1.type), "single instance t=%d %s=%d: %s" % (case["t"], case["param"], case["value"], s1.msg)))
            break
        d = rows_equal(norm_out(s1), [b[i]])
        if d:
            discs.append(D("single_instance_differs_from_batch_row:%s.transform" % kind, "t=%d %s=%d instance %d: %s" % (case["t"], case["param"], case["value"], i, d)))
            break
    rev = sut(est.transform, X3[::-1].copy())
    if not isinstance(rev, Raised):
        d = rows_equal(norm_out(rev), b[::-1])
        if d:
            discs.append(D("permutation_changes_rows:%s.transform" % kind, "t=%d %s=%d reversed batch: %s" % (case["t"], case["param"], case["value"], d)))
    return discs


def panelpool_univariate(k):
    return k in panelpool.UNIVARIATE_ONLY or k in ("tsf", "rise", "stsf", "boss", "iboss", "cboss", "tsfr")


def enum_every_kind(tier):
    """Every runnable panel transformer / classifier / regressor x container x row-label variant
    x {fresh, refitted} on fixed panels (the discrete part of the domain, exhaustively)."""
    import itertools

    base = {"seed": 4321, "n_train": 8, "n_apply": 5, "c": 2, "t": 20, "dup": True, "copy_mask": [True, False, False], "label_kind": "str",
            "perm": [3, 0, 4, 1, 2, 5], "single": 2, "subset": [4, 1], "unequal": None, "int_panel": False}
    kinds = [("transformer", k) for k in panelpool.PANEL_TRANSFORMERS] + [("estimator", k) for k in panelpool.CLASSIFIERS + ("tsfr",)]
    for (fam, k), cont, labels, prefit in itertools.product(kinds, ["nested", "numpy3d"], [None, "shuffled", "cell_origin"], [False, True]):
        spec = {"kind": k, "random_state": 3, "n_columns": 2, "num_intervals": 3, "n_intervals": 2, "intervals": 3, "window_length": 4,
                "length": 9, "num_kernels": 6}
        if k == "pad":
            spec["pad_length"] = 40
        if k in ("rife", "riseg"):
            # unit-width intervals and several features per interval
            spec.update({"n_intervals": 4, "min_length": 1, "more_features": True})
        origin = 3 if labels == "cell_origin" else 0
        if origin:
            labels = None
        yield dict(base, family=fam, spec=spec, fit_container="nested" if (labels or origin) else cont, apply_container=cont,
                   keep_labels=labels is not None, fit_labels=labels, prefit=prefit, cell_origin=origin)
        if k in STATIC_OK:
            yield dict(base, family=fam, spec=spec, fit_container="nested" if (labels or origin) else cont, apply_container=cont,
                       keep_labels=labels is not None, fit_labels=labels, prefit=prefit, cell_origin=origin, static_col=True)
        if labels is None and not origin and not prefit and k != "plateau":
            # whole-number instances stored as integer-typed cells next to real-valued ones
            yield dict(base, family=fam, spec=spec, fit_container=cont, apply_container="nested", keep_labels=False, fit_labels=None,
                       prefit=False, cell_origin=0, whole_rows=True)
        if not panelpool_univariate(k) and labels is None and not origin and not prefit:
            # multivariate kinds: nested frames whose integer column names are not the positions,
            # at fit time, at apply time, or both
            for fc, ac in (("nested", "numpy3d"), ("numpy3d", "nested"), ("nested", "nested")):
                for cl in ("int_reversed", "int_shifted"):
                    yield dict(base, family=fam, spec=spec, fit_container=fc, apply_container=ac, keep_labels=False, fit_labels=None,
                               prefit=False, cell_origin=0, col_labels=cl)


def enum_supervised_forest_large(tier):
    """The supervised forest on training panels of 40 instances - large enough that no bagged
    tree misses a class, the failure recorded as an open finding for small training sets - in
    every container pairing, with real-valued, integer and mixed (whole-number instances stored
    with an integer dtype) cells."""
    base = {"n_train": 40, "n_apply": 6, "c": 1, "t": 24, "dup": False, "copy_mask": [False, True, False], "label_kind": "str",
            "perm": [3, 0, 4, 1, 2, 5], "single": 2, "subset": [4, 1], "unequal": None}
    for seed in ((4321,) if tier == "quick" else (4321, 77, 5, 900, 12, 31, 64, 1000)):
        for fc, ac in (("nested", "nested"), ("numpy3d", "nested"), ("nested", "numpy3d"), ("numpy3d", "numpy3d")):
            for variant in ({}, {"whole_rows": True}, {"int_panel": True}):
                for ne in ((5,) if tier == "quick" else (5, 12)):
                    yield dict(base, seed=seed, family="estimator", spec={"kind": "stsf", "random_state": 3, "n_estimators": ne},
                               fit_container=fc, apply_container=ac, keep_labels=False, fit_labels=None, prefit=False, cell_origin=0,
                               **dict({"int_panel": False}, **variant))


def subchecks():
    return [
        SubCheck("supervised_forest_large_panels", oracle, enumerate_cases=enum_supervised_forest_large, shards_quick=16, shards_thorough=16, exhaustive=True),
        SubCheck("every_kind", oracle, enumerate_cases=enum_every_kind, shards_quick=16, shards_thorough=16, exhaustive=True),
        SubCheck("length_parameter_grid", oracle_grid, enumerate_cases=enum_length_parameter_grid, shards_quick=8, shards_thorough=16, exhaustive=True),
        SubCheck("transformers", oracle, cases("transformer"), quick=600, thorough=5000, shards_quick=6, shards_thorough=16),
        SubCheck("classifiers_regressor", oracle, cases("estimator"), quick=240, thorough=4000, shards_quick=10, shards_thorough=16),
    ]


def _sel_boss_predict_ties(case, disc):
    return case["spec"]["kind"] in ("boss", "cboss")


SELECTORS = {"boss_ensemble_predict": _sel_boss_predict_ties}
