"""C03 - forecasts are indexed by the requested horizon from the true cutoff (DESIGN 2/C03)."""
import numpy as np
import pandas as pd
from hypothesis import strategies as st

from harness import gen, pools
from harness.runner import D, Raised, SubCheck, sut, unexpected

PROPERTY_ID = "C03"
LEVEL = "exploration"
RULE = (
    "generated forecaster specifications (plain and composite, nesting depth <= 2), positive "
    "series on a contiguous integer index whose origin is biased towards the boundaries "
    "(start 0, end 0, negative), out-of-sample horizons (relative or absolute; at fit or at "
    "predict), 0..3 updates with update_params drawn per update, optionally followed by a late "
    "revision batch that ends before the cutoff, float or int64 data; oracle = index/cutoff arithmetic and the index-shift metamorphic "
    "relation (a second forecaster built from the same spec on labels shifted by k). "
    "non-trivial = gapped horizon, or index origin != 0, or a composite, or >= 1 update; "
    "distinct = distinct canonical JSON of the case"
)
ASSUMPTIONS = [
    "series values get a deterministic wiggle (never constant); finiteness is not required of "
    "pipelines containing Box-Cox (inverse undefined outside the transform's image)",
    "forecasters that cannot run on this stack are excluded (DESIGN 0.2); datetime indexes "
    "are not generated",
    "absolute horizons are combined with updates only by passing fresh absolute labels to "
    "predict (forecasters that need the horizon at fit get relative horizons when updated)",
]
EXCLUDED = ["ARIMA/BATS/TBATS/Prophet (absent soft dependencies)", "datetime / period indexes"]


def _labels(idx):
    return [int(v) for v in idx]


def run_history(spec, y_full, n0, steps, case, shift=0):
    """Fit, predict, update..., returning (observations, error-discrepancies)."""
    from sktime.forecasting.base import ForecastingHorizon

    obs = []
    discs = []
    f = sut(pools.build_forecaster, spec)
    if isinstance(f, Raised):
        return obs, [unexpected(f, "constructing %s" % pools.describe(spec))]
    y0 = y_full.iloc[:n0]
    cutoff = int(y0.index[-1])
    need_fit = pools.needs_fh_in_fit(spec) or case["fh_when"] == "fit"
    absolute = case["fh_mode"] == "abs"

    def fh_for(c):
        if absolute:
            hs = [c + h for h in steps]
            if case["fh_kind"].endswith("_shuffled"):
                hs = hs[1:][::-1] + hs[:1] if len(hs) > 2 else hs[::-1]
            if "index" in case["fh_kind"]:
                return ForecastingHorizon(pd.Index(np.array(hs, dtype="int64")), is_relative=False)
            return ForecastingHorizon(hs, is_relative=False)
        return gen.build_fh(steps, case["fh_kind"])

    r = sut(f.fit, y0.copy(), None, fh_for(cutoff) if need_fit else None)
    if isinstance(r, Raised):
        return obs, [D("valid_fit_rejected:%s@%s" % (r.type, r.where), "%s n=%d fh=%s: %s" % (pools.describe(spec), n0, steps, r.msg))]
    if r is not f:
        discs.append(D("fit_not_self", pools.describe(spec)))
    c = sut(lambda: f.cutoff)
    obs.append(("cutoff_after_fit", None if isinstance(c, Raised) else int(c)))
    if isinstance(c, Raised) or int(c) != cutoff:
        discs.append(D("cutoff_after_fit", "%s: cutoff %r expected %d" % (pools.describe(spec), c, cutoff)))
    first_fh_given = not (need_fit and case["fh_when"] == "fit" and not case["repeat_fh"])
    if case.get("insample_first") and first_fh_given and not pools.needs_fh_in_fit(spec) and not discs:
        # a look back at the fitted values (steps <= 0, alone or with a step ahead) is a read:
        # the cutoff stays the last training time point and the next forecast starts from it
        import copy

        back = [h for h in case["insample_first"] if h > -n0]
        trial = sut(copy.deepcopy, f)
        pb = sut(trial.predict, list(back)) if back and not isinstance(trial, Raised) else None
        if isinstance(pb, pd.Series):
            pb = sut(f.predict, list(back))
            if isinstance(pb, Raised):
                discs.append(D("predict_raised:%s@%s" % (pb.type, pb.where), "%s fh=%s succeeded on a copy and failed on the forecaster: %s" % (pools.describe(spec), back, pb.msg)))
                return obs, discs
            got = sut(lambda: _labels(pb.index))
            if isinstance(got, Raised) or got != [cutoff + h for h in back]:
                discs.append(D("forecast_index", "%s fh=%s (looking back): index %s expected %s" % (pools.describe(spec), back, list(pb.index), [cutoff + h for h in back])))
            ahead = [i for i, h in enumerate(back) if h > 0]
            if ahead and len(pb) == len(back) and not _has_boxcox(spec) and not np.all(np.isfinite(pb.to_numpy(dtype=float)[ahead])):
                discs.append(D("forecast_not_finite", "%s fh=%s: %s" % (pools.describe(spec), back, pb.tolist())))
            c = sut(lambda: f.cutoff)
            if isinstance(c, Raised) or int(c) != cutoff:
                discs.append(D("cutoff_after_looking_back", "%s: cutoff %r after predict(%s), expected %d" % (pools.describe(spec), c, back, cutoff)))
            obs.append(("looked_back", None))
            if discs:
                return obs, discs
    p = sut(f.predict, fh_for(cutoff) if first_fh_given else None)
    discs += check_pred(p, cutoff, steps, spec, "after fit")
    obs.append(("pred0", None if isinstance(p, Raised) else (_labels(p.index), p.to_numpy(dtype=float).tolist())))
    if _subset_consistent(spec) and not pools.needs_fh_in_fit(spec) and not discs and not isinstance(p, Raised) and steps != list(range(1, steps[-1] + 1)):
        # the value labelled cutoff+k is the k-step-ahead forecast whichever other steps are
        # requested with it: it equals the same label of the contiguous forecast 1..max(fh)
        import copy

        f3 = sut(copy.deepcopy, f)
        full = sut(f3.predict, list(range(1, steps[-1] + 1))) if not isinstance(f3, Raised) else f3
        if not isinstance(full, Raised) and isinstance(full, pd.Series) and len(full) == steps[-1]:
            want_vals = full.to_numpy(dtype=float)[[h - 1 for h in steps]]
            if len(p) == len(steps) and not np.allclose(p.to_numpy(dtype=float), want_vals, rtol=1e-9, atol=1e-9, equal_nan=True):
                discs.append(D("value_at_label_depends_on_requested_set", "%s fh=%s: got %s, the same labels of the forecast for steps 1..%d are %s"
                               % (pools.describe(spec), steps, p.tolist(), steps[-1], want_vals.tolist())))
                return obs, discs
    if case.get("other_kind") and not pools.needs_fh_in_fit(spec) and not discs:
        # the same NUMBERS as a horizon of the other kind (absolute <-> relative) mean other
        # time points unless the cutoff is 0: the forecaster must answer for the horizon given now
        nums = [cutoff + h for h in steps] if absolute else list(steps)
        if absolute and min(nums) > 0:
            second, rel2 = ForecastingHorizon(nums, is_relative=True), nums
        elif not absolute and min(nums) > cutoff:
            second, rel2 = ForecastingHorizon(nums, is_relative=False), [v - cutoff for v in nums]
        else:
            second = None
        if second is not None:
            import copy

            f2 = sut(copy.deepcopy, f)  # the horizon passed to predict is remembered: ask a copy
            p2 = sut(f2.predict, second) if not isinstance(f2, Raised) else f2
            discs += check_pred(p2, cutoff, rel2, spec, "same numbers as a horizon of the other kind")
            if discs:
                return obs, discs
    pos = n0
    cutoff0 = cutoff
    for j, k in enumerate(case["updates"]):
        fixed_points = False
        if absolute and pools.needs_fh_in_fit(spec):
            # the horizon was fixed at fit time: the same absolute time points are forecast
            # again after an update for as long as they lie ahead of the cutoff (stacking)
            if spec["kind"] != "stack" or pos + k > len(y_full) or int(y_full.index[pos + k - 1]) >= cutoff0 + steps[0]:
                break
            fixed_points = True
        yb = y_full.iloc[pos: pos + k]
        pos += k
        upar = case.get("update_params", [True])[j % len(case.get("update_params", [True]))]
        u = sut(f.update, yb.copy(), None, upar)
        if isinstance(u, Raised):
            discs.append(D("update_raised:%s@%s" % (u.type, u.where), "%s update %d: %s" % (pools.describe(spec), j, u.msg)))
            break
        cutoff = int(yb.index[-1])
        c = sut(lambda: f.cutoff)
        obs.append(("cutoff_after_update", None if isinstance(c, Raised) else int(c)))
        if isinstance(c, Raised) or int(c) != cutoff:
            discs.append(D("cutoff_after_update", "%s: cutoff %r expected %d" % (pools.describe(spec), c, cutoff)))
            break
        if fixed_points:
            p = sut(f.predict)
            discs += check_pred(p, cutoff0, steps, spec, "after update %d (time points fixed at fit)" % j)
            if not discs:
                # the value under a time point is made from the members' forecasts of THAT time point
                want = sut(lambda: f.final_regressor_.predict(np.column_stack(
                    [np.asarray(m.predict(fh_for(cutoff0)), dtype=float) for m in f.forecasters_])))
                if not isinstance(want, Raised) and not np.allclose(p.to_numpy(dtype=float), np.asarray(want, dtype=float), rtol=1e-9, atol=1e-9, equal_nan=True):
                    discs.append(D("stacked_value_not_for_its_time_point", "%s after update %d: time points %s got %s, from the members' forecasts of these time points %s"
                                   % (pools.describe(spec), j, [cutoff0 + h for h in steps], p.tolist(), np.asarray(want).tolist())))
            obs.append(("pred_u", None if isinstance(p, Raised) else (_labels(p.index), p.to_numpy(dtype=float).tolist())))
            continue
        p = sut(f.predict, fh_for(cutoff) if (absolute or not need_fit or case["repeat_fh"]) else None)
        discs += check_pred(p, cutoff, steps, spec, "after update %d" % j)
        obs.append(("pred_u", None if isinstance(p, Raised) else (_labels(p.index), p.to_numpy(dtype=float).tolist())))
    rev = case.get("revision")
    if rev and not discs and not (absolute and pools.needs_fh_in_fit(spec)):
        # a late revision of already known observations: the batch ends BEFORE the current
        # cutoff; "after every update [the cutoff] is the last time point of the data passed
        # to update" (parameters are not updated, so no refit on the whole history happens)
        back, length = rev
        end = pos - back  # exclusive position
        lo = max(0, end - length)
        if end - lo >= 1 and end < pos and end >= pools.min_length(spec, steps[-1]) + 1 and not _whole_series_window(spec):
            yb = y_full.iloc[lo:end] + 0.5
            u = sut(f.update, yb.copy(), None, False)
            if isinstance(u, Raised):
                discs.append(D("update_raised:%s@%s" % (u.type, u.where), "%s revision update: %s" % (pools.describe(spec), u.msg)))
                return obs, discs
            cutoff = int(yb.index[-1])
            c = sut(lambda: f.cutoff)
            obs.append(("cutoff_after_revision", None if isinstance(c, Raised) else int(c)))
            if isinstance(c, Raised) or int(c) != cutoff:
                discs.append(D("cutoff_after_revision_update", "%s: cutoff %r expected %d (batch %d..%d passed with update_params=False)"
                               % (pools.describe(spec), c, cutoff, int(yb.index[0]), cutoff)))
                return obs, discs
            p = sut(f.predict, fh_for(cutoff) if (absolute or not need_fit or case["repeat_fh"]) else None)
            discs += check_pred(p, cutoff, steps, spec, "after revision update")
            obs.append(("pred_r", None if isinstance(p, Raised) else (_labels(p.index), p.to_numpy(dtype=float).tolist())))
    return obs, discs


def _whole_series_window(spec):
    """A seasonal-mean NaiveForecaster with window_length=None uses the length of the series
    it was fitted on as window; moving the cutoff back leaves it with fewer observations than
    its window (an input no caller can satisfy), so revisions are not generated for it."""
    if isinstance(spec, dict):
        if spec.get("kind") == "naive" and spec.get("strategy") == "mean" and spec.get("wl") is None and (spec.get("sp") or 1) > 1:
            return True
        return any(_whole_series_window(v) for v in spec.values())
    if isinstance(spec, list):
        return any(_whole_series_window(v) for v in spec)
    return False


def _subset_consistent(spec):
    """Forecasters whose h-step forecast is defined independently of the set of requested steps."""
    k = spec["kind"]
    if k in ("naive", "trend", "expsmooth", "ets", "theta"):
        return True
    if k == "reduce":
        return spec["strategy"] == "recursive"
    if k in ("ensemble", "multiplex", "online_ensemble"):
        return all(_subset_consistent(m) for m in spec["members"])
    if k == "pipeline":
        return _subset_consistent(spec["forecaster"])
    return False


def _has_boxcox(spec):
    if spec["kind"] == "pipeline":
        return any(t["kind"] == "boxcox" for t in spec["transformers"]) or _has_boxcox(spec["forecaster"])
    if "members" in spec:
        return any(_has_boxcox(m) for m in spec["members"])
    if "base" in spec:
        return _has_boxcox(spec["base"])
    return False


def check_pred(p, cutoff, steps, spec, when):
    name = pools.describe(spec)
    if isinstance(p, Raised):
        return [D("predict_raised:%s@%s" % (p.type, p.where), "%s %s fh=%s: %s" % (name, when, steps, p.msg))]
    if not isinstance(p, pd.Series):
        return [D("predict_type", "%s %s: %s" % (name, when, type(p).__name__))]
    out = []
    want = [cutoff + h for h in steps]
    got = sut(lambda: _labels(p.index))
    if isinstance(got, Raised) or got != want:
        out.append(D("forecast_index", "%s %s: index %s expected %s" % (name, when, list(p.index), want)))
    # Box-Cox pipelines: the inverse transform is undefined outside the image of the
    # transform, so an extrapolating forecaster may legitimately yield nan (scipy behaviour)
    if len(p) == len(steps) and not _has_boxcox(spec) and not np.all(np.isfinite(p.to_numpy(dtype=float))):
        out.append(D("forecast_not_finite", "%s %s fh=%s: %s" % (name, when, steps, p.tolist())))
    return out


def oracle(case, ctx):
    spec = case["spec"]
    steps = case["fh"]
    n0 = case["n"]
    total = n0 + sum(case["updates"])
    vals = [v + ((i * 37) % 11) / 7.0 for i, v in enumerate(case["values"][:total])]
    y = gen.build_series(vals, case["start"], case["index_kind"])
    if case.get("int_dtype"):
        y = pd.Series(np.round(y.to_numpy() * 3).astype("int64"), index=y.index)
        ctx.label("int_dtype")
    ctx.label(pools.describe(spec).split("(")[0])
    ctx.label("abs" if case["fh_mode"] == "abs" else "rel")
    gapped = steps != list(range(1, len(steps) + 1))
    ctx.mark_nontrivial(gapped or case["start"] != 0 or pools.is_composite(spec) or bool(case["updates"]))
    end0 = case["start"] + n0 - 1
    if end0 == 0:
        ctx.label("cutoff_zero")
    if case.get("revision"):
        ctx.label("revision_update")
    if case.get("insample_first"):
        ctx.label("looks_back_first")
    obs, discs = run_history(spec, y, n0, steps, case)
    if discs:
        return discs
    # metamorphic: shift all labels by k
    k = case["shift"]
    y2 = gen.build_series(vals, case["start"] + k, case["index_kind"])
    if case.get("int_dtype"):
        y2 = pd.Series(np.round(y2.to_numpy() * 3).astype("int64"), index=y2.index)
    obs2, discs2 = run_history(spec, y2, n0, steps, case)
    if discs2:
        return [D("shifted_run_fails:" + discs2[0]["kind"], "shift %d: %s" % (k, discs2[0]["detail"]))]
    obs, obs2 = [o for o in obs if o[0] != "looked_back"], [o for o in obs2 if o[0] != "looked_back"]
    for (t1, a), (t2, b) in zip(obs, obs2):
        if t1.startswith("cutoff"):
            if a is None or b is None or b - a != k:
                discs.append(D("shift_cutoff", "%s: %s vs %s (shift %d)" % (pools.describe(spec), a, b, k)))
        elif a is not None and b is not None:
            if [v + k for v in a[0]] != b[0]:
                discs.append(D("shift_index", "%s: %s vs %s (shift %d)" % (pools.describe(spec), a[0], b[0], k)))
            elif not np.allclose(a[1], b[1], rtol=1e-7, atol=1e-9, equal_nan=True):
                discs.append(D("shift_changes_values", "%s start=%d shift=%d fh=%s: %s vs %s"
                               % (pools.describe(spec), case["start"], k, steps, a[1], b[1])))
    return discs


@st.composite
def cases(draw, depth=2, cheap=False):
    spec = draw(pools.forecaster_specs(max_depth=depth, cheap=cheap))
    steps = draw(gen.fh_steps(max_step=8, max_size=4))
    n = draw(st.integers(pools.min_length(spec, steps[-1]) + 2, pools.min_length(spec, steps[-1]) + 20))
    updates = draw(st.lists(st.integers(1, 4), max_size=3))
    total = n + sum(updates)
    # boundary-biased index origin: start 0, series ending at 0 / -1 / 1, negative, large
    mode = draw(st.integers(0, 9))
    if mode <= 2:
        start = 0
    elif mode == 3:
        start = -(n - 1)  # first cutoff == 0
    elif mode == 4:
        start = -(n - 1) - draw(st.integers(1, 3))
    elif mode == 5:
        start = -(total - 1)  # last cutoff == 0
    else:
        start = draw(st.integers(-60, 1000))
    return {
        "spec": spec, "fh": steps, "n": n, "updates": updates,
        "values": draw(gen.series_values(total, total, lo=5.0, hi=500.0)),
        "start": start, "index_kind": draw(gen.index_kind),
        "fh_mode": draw(st.sampled_from(["rel", "rel", "abs"])),
        "fh_when": draw(st.sampled_from(["fit", "predict"])),
        "fh_kind": draw(st.sampled_from(["list", "array", "fh", "int", "index", "range", "list_shuffled", "array_shuffled", "index_shuffled", "fh_index_shuffled"])),
        "repeat_fh": draw(st.booleans()), "int_dtype": draw(st.integers(0, 4)) == 0,
        "update_params": draw(st.lists(st.sampled_from([True, True, False]), min_size=1, max_size=3)),
        "other_kind": draw(st.booleans()),
        "insample_first": draw(st.one_of(st.none(), st.none(), st.lists(st.integers(-4, 0), min_size=1, max_size=3, unique=True).map(sorted),
                                         st.tuples(st.integers(-3, 0), st.integers(1, 3)).map(list))),
        "revision": draw(st.one_of(st.none(), st.none(), st.tuples(st.integers(1, 3), st.integers(1, 4)))),
        "shift": draw(st.sampled_from([1, -1, 7, -13, 100, -(start + n - 1) if start + n - 1 != 0 else 5])),
    }


@st.composite
def stack_cases(draw):
    """Stacks fitted with an absolute horizon that starts some steps ahead, then updated."""
    c = draw(cases(depth=1, cheap=True))
    members = draw(st.lists(st.one_of(pools.plain_specs(cheap=True), pools.plain_specs(cheap=True), pools.composite_specs(pools.plain_specs(cheap=True), allow_grid=False)),
                            min_size=1, max_size=3))
    spec = {"kind": "stack", "members": members, "reg": "linear"}
    first = draw(st.integers(2, 6))
    steps = sorted(set([first] + [first + d for d in draw(st.lists(st.integers(1, 4), max_size=3))]))
    ups = draw(st.lists(st.integers(1, 2), min_size=1, max_size=3))
    n = pools.min_length(spec, steps[-1]) + 2 + draw(st.integers(0, 12))
    total = n + sum(ups)
    vals = c["values"] + draw(gen.series_values(max(0, total - len(c["values"])), max(0, total - len(c["values"])), lo=5.0, hi=500.0))
    return dict(c, spec=spec, fh=steps, n=n, updates=ups, values=vals[:total] if len(vals) >= total else vals, fh_mode="abs", fh_when="fit",
                revision=None, other_kind=False)


def subchecks():
    return [
        SubCheck("plain", oracle, cases(depth=0), quick=800, thorough=4000, shards_quick=6, shards_thorough=16),
        SubCheck("composite", oracle, cases(depth=2), quick=800, thorough=4000, shards_quick=10, shards_thorough=16),
        SubCheck("stack_fixed_time_points", oracle, stack_cases(), quick=200, thorough=2000, shards_quick=4, shards_thorough=16),
    ]


SELECTORS = {}
