"""C10 - updating with new data is equivalent to having observed it (DESIGN 2/C10).

Model-based testing: a generated history (list of operations) is interpreted against the
forecaster and against a model {observed: label -> value (later wins), cutoff, data at the
last parameter fit}.  The whole history is one generated value, so it shrinks as one.
"""
import copy

import numpy as np
import pandas as pd
from hypothesis import strategies as st

from harness import gen, pools
from harness.runner import D, Raised, SubCheck, sut, unexpected

PROPERTY_ID = "C10"
LEVEL = "exploration"
RULE = (
    "generated histories over {fit, update(update_params), predict, update_predict_single, "
    "update_predict(cv), re-fit} with consecutive, overlapping (possibly revised) or purely "
    "revising batches, for plain and composite forecasters incl. pipelines of element-wise "
    "transformers (value-checked through the chain) and a Detrender sub-check; invariants after every step: cutoff == model cutoff; "
    "refit-on-update forecasters forecast like a fresh forecaster fitted on the model's union; "
    "with update_params=False parametric forecasters keep the parameters of the last fit and "
    "forecast from the new cutoff; update_predict == the corresponding single updates on a deep "
    "copy and restores the cutoff. non-trivial = >= 2 updates, or an overlapping batch, or an "
    "update_predict; distinct = distinct JSON of the case"
)
ASSUMPTIONS = [
    "batches end at or after the current cutoff (data arrive in time order; a batch ending at the cutoff revises known observations)",
    "ThetaForecaster (own incremental update) is held to the cutoff / labelling clauses only",
    "reducers with update_params=False are held to the cutoff / labelling clauses only",
    "forecasts compared with rtol 1e-8",
]

from sktime.forecasting.base import ForecastingHorizon  # noqa: E402
from sktime.forecasting.model_selection import ExpandingWindowSplitter, SlidingWindowSplitter  # noqa: E402

PARAMETRIC = ("trend", "expsmooth", "ets")


def fitted_numbers(f):
    """Numeric fitted state of the forecaster object itself (not of its components)."""
    out = {}
    for k, v in list(vars(f).items()):
        if not k.endswith("_") or k.startswith("_"):
            continue
        if isinstance(v, (bool, int, float, np.number)):
            out[k] = np.array([float(v)])
        elif isinstance(v, (np.ndarray, pd.Series)) and np.asarray(v).dtype.kind in "fiu" and np.asarray(v).size <= 64:
            out[k] = np.asarray(v, dtype=float).copy()
    gp = sut(lambda: f.get_fitted_params())
    if isinstance(gp, dict):
        for k, v in gp.items():
            if isinstance(v, (bool, int, float, np.number)):
                out["fitted_param:" + k] = np.array([float(v)])
    return out


def _same_numbers(a, b):
    return a.shape == b.shape and np.allclose(a, b, rtol=1e-12, atol=0, equal_nan=True)


def _short_num(a):
    return np.round(np.asarray(a).ravel()[:4], 6).tolist()


def series_of(model):
    labs = sorted(model["obs"])
    return pd.Series([model["obs"][k] for k in labs], index=pd.Index(labs, dtype="int64"))


def mk(labels, values, kind):
    idx = pd.RangeIndex(labels[0], labels[-1] + 1) if kind == "range" else pd.Index(np.array(labels, dtype="int64"))
    return pd.Series(np.array(values, dtype=float), index=idx)


def close(a, b):
    return (isinstance(a, pd.Series) and [int(i) for i in a.index] == [int(i) for i in b.index]
            and np.allclose(a.to_numpy(dtype=float), b.to_numpy(dtype=float), rtol=1e-8, atol=1e-9, equal_nan=True))


def oracle(case, ctx):
    spec = case["spec"]
    steps = case["fh"]
    desc = pools.describe(spec)
    master = [v + ((i * 37) % 11) / 7.0 for i, v in enumerate(case["values"])]
    start = case["start"]
    ik = case["index_kind"]
    n0 = case["n"]
    fh_fit = case["fh_when"] == "fit" or pools.needs_fh_in_fit(spec)

    def val(label):
        return master[(label - start) % len(master)]

    labels0 = list(range(start, start + n0))
    y0 = mk(labels0, [val(k) for k in labels0], ik)
    model = {"obs": {k: float(v) for k, v in zip(labels0, y0.to_numpy())}, "cutoff": labels0[-1],
             "fit_data": y0.copy(), "tf_fit_data": y0.copy()}
    f = pools.build_forecaster(spec)
    r = sut(f.fit, y0.copy(), None, gen.build_fh(steps, "list") if fh_fit else None)
    if isinstance(r, Raised):
        return [D("valid_fit_rejected:%s@%s" % (r.type, r.where), "%s n=%d fh=%s: %s" % (desc, n0, steps, r.msg))]
    discs = []
    n_updates = 0
    overlap_seen = False
    up_seen = False
    ctx.label(desc.split("(")[0])

    def fh_arg():
        return None if fh_fit else gen.build_fh(steps, "list")

    def expected_forecast(update_params_last, sp=None, fwd=None):
        """Forecast the model says the forecaster must now produce, or None if not pinned down.
        ``fwd`` maps observations into the representation the (inner) forecaster sees."""
        sp = spec if sp is None else sp
        fwd = (lambda s: s) if fwd is None else fwd
        c = model["cutoff"]
        if pools.is_fit_frozen_pipeline(sp):
            # transformers that map every time point on its own with a state fixed by the last
            # fit of the pipeline (update never re-estimates it): the final forecaster must
            # behave as if it had observed the transformed union; its forecast is mapped back in
            # reverse order
            ts = [pools.build_transformer(t) for t in sp["transformers"]]
            s0 = fwd(model["tf_fit_data"].copy())
            for t in ts:
                s0 = t.fit_transform(s0.copy())

            def inner_fwd(s):
                s = fwd(s)
                for t in ts:
                    s = t.transform(s.copy())
                return s

            p = expected_forecast(update_params_last, sp["forecaster"], inner_fwd)
            if p is None:
                return None
            for t in reversed(ts):
                p = t.inverse_transform(p)
            return p
        if sp is spec and sp["kind"] == "stack":
            # the final regressor is documented as never updated: the stacked forecast is that
            # regressor applied to what each member must forecast now - members DO follow
            # update_params (refitted on everything observed when it is True)
            parts = [expected_forecast(update_params_last, m, fwd) for m in sp["members"]]
            if any(p is None for p in parts):
                return None
            M = np.column_stack([p.to_numpy(dtype=float) for p in parts])
            if float(np.max(np.abs(np.asarray(getattr(f.final_regressor_, "coef_", [0.0]), dtype=float)))) > 1e3:
                # a regressor fitted on (nearly) collinear hold-out forecasts amplifies rounding
                # differences between equal member forecasts: values not compared
                ctx.label("stack_regressor_ill_conditioned")
                return None
            ctx.label("stack_values_modelled")
            return pd.Series(np.asarray(f.final_regressor_.predict(M), dtype=float), index=parts[0].index)
        if pools.refits_on_update(sp) and model["params_current"]:
            g = pools.build_forecaster(sp)
            u = fwd(series_of(model))
            g.fit(mk(list(u.index), u.to_numpy(), ik), None, gen.build_fh(steps, "list"))
            return g.predict()
        if not model["params_current"]:
            if sp["kind"] in PARAMETRIC:
                g = pools.build_forecaster(sp)
                g.fit(fwd(model["fit_data"].copy()))
                return g.predict(ForecastingHorizon([c + h for h in steps], is_relative=False))
            if sp["kind"] == "naive":
                g = pools.build_forecaster(sp)
                # non-parametric: the window length resolved at the last fit, the newest window
                u = fwd(series_of(model))
                if sp.get("wl") is None and sp["strategy"] in ("mean", "drift"):
                    u = u.iloc[-len(model["fit_data"]):]
                g.fit(mk(list(u.index), u.to_numpy(), ik), None, gen.build_fh(steps, "list"))
                return g.predict()
            if sp["kind"] == "ensemble":
                parts = [expected_forecast(update_params_last, m, fwd) for m in sp["members"]]
                if any(p is None for p in parts):
                    return None
                M = np.column_stack([p.to_numpy(dtype=float) for p in parts])
                agg = {"mean": np.mean, "median": np.median, "min": np.min, "max": np.max}[sp.get("aggfunc", "mean")]
                return pd.Series(agg(M, axis=1), index=parts[0].index)
            if sp["kind"] == "multiplex":
                return expected_forecast(update_params_last, sp["members"][sp["selected"] % len(sp["members"])], fwd)
        return None

    model["params_current"] = True
    for op in case["ops"]:
        kind = op["op"]
        c = model["cutoff"]
        if model.get("beyond_cutoff"):
            # after an update_predict the forecaster remembers data later than its (restored)
            # cutoff: only the cutoff / labelling clauses and further update_predict calls are
            # followed from here on
            if kind == "predict":
                p = sut(f.predict, fh_arg())
                exp = None
                if spec["kind"] == "naive" and (spec["strategy"] == "last" or spec.get("wl") is not None):
                    # a window forecaster without fitted parameters: the forecast is made from
                    # the cutoff, i.e. from the window that ends there (not from the newest
                    # data the forecaster happens to remember)
                    def window_at_cutoff():
                        u = series_of(model)
                        g = pools.build_forecaster(spec)
                        g.fit(mk(list(u.index), u.to_numpy(), ik), None, gen.build_fh(steps, "list"))
                        return g.predict()

                    exp = sut(window_at_cutoff)
                    ctx.label("window_forecast_after_update_predict")
                elif spec["kind"] == "trend" and model.get("up_without_refit"):
                    # a fitted trend line is a function of time: after update_predict calls that
                    # did not touch the parameters it is read off at cutoff + steps, wherever the
                    # remembered data end
                    def line_at_cutoff():
                        g = pools.build_forecaster(spec)
                        src = series_of(model) if model["params_current"] else model["fit_data"]
                        g.fit(mk(list(src.index), src.to_numpy(), ik))
                        return g.predict(ForecastingHorizon([model["cutoff"] + h for h in steps], is_relative=False))

                    exp = sut(line_at_cutoff)
                    ctx.label("trend_forecast_after_update_predict")
                discs += check_forecast(p, model, steps, desc, "predict_after_update_predict", exp)
                continue
            if kind != "update_predict":
                continue
            op = dict(op, update_params=False)
            ctx.label("second_update_predict")
        if kind == "refit":
            # fitting the same object again starts afresh, on all the data observed so far
            u = series_of(model)
            yy = mk(list(u.index), u.to_numpy(), ik)
            r2 = sut(f.fit, yy.copy(), None, gen.build_fh(steps, "list") if fh_fit else None)
            if isinstance(r2, Raised):
                discs.append(D("refit_raised:%s@%s" % (r2.type, r2.where), "%s: %s" % (desc, r2.msg)))
                break
            model["fit_data"] = u
            model["tf_fit_data"] = u
            model["params_current"] = True
            p = sut(f.predict, fh_arg())
            discs += check_forecast(p, model, steps, desc, "predict_after_refit", sut(expected_forecast, None))
        elif kind == "predict":
            p = sut(f.predict, fh_arg())
            discs += check_forecast(p, model, steps, desc, "predict", sut(expected_forecast, None))
        elif kind in ("update", "ups"):
            o = min(op["overlap"], len(model["obs"]) - 1)
            labs = list(range(c + 1 - o, c + 1 + op["k"]))
            if not labs:
                continue
            if op["k"] == 0:
                ctx.label("pure_revision_batch")
            vals = []
            for k in labs:
                if k <= c:
                    v = model["obs"][k]
                    if op["revise"]:
                        v = v * 1.07 + 1.0
                        overlap_seen = True
                    vals.append(v)
                else:
                    vals.append(val(k))
            if o:
                overlap_seen = True
            yb = mk(labs, vals, ik)
            upar = op["update_params"]
            before = fitted_numbers(f) if not upar else None
            if kind == "update":
                u = sut(f.update, yb.copy(), None, upar)
            else:
                u = sut(f.update_predict_single, yb.copy(), fh_arg(), None, upar)
            if isinstance(u, Raised):
                discs.append(D("update_raised:%s@%s" % (u.type, u.where), "%s %s(update_params=%s) after fit(fh %s): %s"
                               % (desc, kind, upar, "given" if fh_fit else "not given", u.msg)))
                break
            n_updates += 1
            for k, v in zip(labs, vals):
                model["obs"][k] = float(v)
            model["cutoff"] = labs[-1]
            if upar:
                model["fit_data"] = series_of(model)
                model["params_current"] = True
            else:
                model["params_current"] = False
            if kind == "update" and u is not f:
                discs.append(D("update_not_self", desc))
            if before is not None:
                # parameter updating disabled: every fitted number of the forecaster itself
                # (public attributes ending in "_", get_fitted_params) is that of the last fit
                after = fitted_numbers(f)
                changed = [k for k in before if k in after and not _same_numbers(before[k], after[k])]
                if changed:
                    discs.append(D("fitted_parameter_changed_without_update_params", "%s %s(update_params=False): %s"
                                   % (desc, kind, ", ".join("%s %s -> %s" % (k, _short_num(before[k]), _short_num(after[k])) for k in changed[:3]))))
                    break
            cc = sut(lambda: f.cutoff)
            if isinstance(cc, Raised) or int(cc) != model["cutoff"]:
                discs.append(D("cutoff_after_update", "%s: cutoff %r model %d" % (desc, cc, model["cutoff"])))
                break
            if kind == "ups":
                discs += check_forecast(u, model, steps, desc, "update_predict_single", sut(expected_forecast, upar))
        elif kind == "update_predict":
            m = op["m"] + (2 if op.get("other_fh") and not fh_fit else 0)  # (room for the longer horizon)
            labs = list(range(c + 1, c + 1 + m))
            yf = mk(labs, [val(k) for k in labs], ik)
            up_steps = steps
            if op.get("other_fh") and not fh_fit:
                # the splitter's horizon is the one that counts for the rolling forecasts, also when
                # the forecaster remembers another one from an earlier predict
                up_steps = [h + 1 for h in steps][: max(1, len(steps) - 1)] + [steps[-1] + 2]
                up_steps = sorted(set(up_steps))
                ctx.label("update_predict_with_other_horizon")
            if op["cv"] == "sliding":
                cv = SlidingWindowSplitter(fh=up_steps, window_length=op["wl"], step_length=op["step"], start_with_window=op["sww"])
            else:
                cv = ExpandingWindowSplitter(fh=up_steps, initial_window=op["wl"], step_length=op["step"], start_with_window=op["sww"])
            twin = sut(copy.deepcopy, f)
            if isinstance(twin, Raised):
                raise AssertionError("deepcopy failed: %r" % (twin,))
            exp = []
            ok = True
            for win, _ in cv.split(yf):
                yb = yf.iloc[win]
                u = sut(twin.update, yb.copy(), None, op["update_params"])
                if isinstance(u, Raised):
                    ok = False
                    break
                p = sut(twin.predict, fh_arg() if up_steps is steps else gen.build_fh(up_steps, "list"))
                if isinstance(p, Raised):
                    ok = False
                    break
                exp.append((int(twin.cutoff), p))
            if op.get("interrupt_after") and ok and len(exp) > op["interrupt_after"]:
                # the run is cut short (the source of windows fails after some of them): the
                # call raises, and the forecaster's own cutoff is where it was before the call
                probe = sut(copy.deepcopy, f)
                fcv = _interrupted(cv, op["interrupt_after"])
                gi = sut(probe.update_predict, yf.copy(), fcv, None, op["update_params"])
                ctx.label("update_predict_interrupted")
                if not (isinstance(gi, Raised) and gi.type == "InjectedFault"):
                    discs.append(D("interrupted_update_predict_returns", "%s: %r" % (desc, gi)))
                    break
                cc = sut(lambda: probe.cutoff)
                if isinstance(cc, Raised) or int(cc) != c:
                    discs.append(D("cutoff_not_restored_after_interrupted_update_predict", "%s: run interrupted after %d windows: cutoff %r was %d" % (
                        desc, op["interrupt_after"], cc, c)))
                    break
            got = sut(f.update_predict, yf.copy(), cv, None, op["update_params"])
            up_seen = True
            if not ok:
                if not isinstance(got, Raised):
                    discs.append(D("update_predict_succeeds_where_single_updates_fail", desc))
                break
            if isinstance(got, Raised):
                discs.append(D("update_predict_raised:%s@%s" % (got.type, got.where), "%s: %s" % (desc, got.msg)))
                break
            discs += check_update_predict(got, exp, up_steps, desc)
            cc = sut(lambda: f.cutoff)
            if isinstance(cc, Raised) or int(cc) != c:
                discs.append(D("cutoff_not_restored_after_update_predict", "%s: cutoff %r was %d" % (desc, cc, c)))
            # the forecaster has seen y_future but keeps the old cutoff
            model["up_without_refit"] = (not op["update_params"]) and model.get("up_without_refit", True)
            model["beyond_cutoff"] = True
        if discs:
            break
    ctx.mark_nontrivial(n_updates >= 2 or overlap_seen or up_seen)
    if overlap_seen:
        ctx.label("overlap")
    if up_seen:
        ctx.label("update_predict")
    ctx.label("updates=%s" % (n_updates if n_updates < 3 else "3+"))
    return discs


class InjectedFault(RuntimeError):
    pass


def _interrupted(cv, k):
    """The same splitter whose stream of windows fails after k windows."""
    fcv = copy.deepcopy(cv)
    inner = fcv.split

    def split(y):
        for i, w in enumerate(inner(y)):
            if i == k:
                raise InjectedFault("source of windows failed after %d windows" % k)
            yield w

    fcv.split = split
    return fcv


def check_forecast(p, model, steps, desc, what, exp):
    if isinstance(p, Raised):
        return [D("%s_raised:%s@%s" % (what, p.type, p.where), "%s: %s" % (desc, p.msg))]
    want = [model["cutoff"] + h for h in steps]
    if not isinstance(p, pd.Series) or [int(i) for i in p.index] != want:
        return [D("forecast_not_from_model_cutoff", "%s %s: index %s expected %s" % (desc, what, list(getattr(p, "index", [])), want))]
    if isinstance(exp, Raised):
        return [D("fresh_forecaster_on_union_raised:%s@%s" % (exp.type, exp.where), "%s %s: %s" % (desc, what, exp.msg))]
    if exp is not None and not close(p, exp):
        k = "update_not_equivalent_to_observing" if model["params_current"] else "parameters_changed_without_update_params"
        return [D(k, "%s %s: got %s expected %s (cutoff %d)" % (desc, what, p.tolist(), exp.tolist(), model["cutoff"]))]
    return []


def check_update_predict(got, exp, steps, desc):
    cutoffs = [c for c, _ in exp]
    if len(steps) == 1:
        want = pd.concat([p for _, p in exp])
        if not close(got, want):
            return [D("update_predict_differs", "%s: got %s expected %s" % (desc, getattr(got, "tolist", lambda: got)(), want.tolist()))]
        return []
    if len(exp) == 1:
        if not close(got, exp[0][1]):
            return [D("update_predict_differs", "%s: single split" % desc)]
        return []
    if not isinstance(got, pd.DataFrame):
        return [D("update_predict_type", "%s: %s" % (desc, type(got).__name__))]
    if [int(c) for c in got.columns] != cutoffs:
        return [D("update_predict_cutoff_labels", "%s: columns %s expected %s" % (desc, list(got.columns), cutoffs))]
    out = []
    for j, (c, p) in enumerate(exp):
        # per label; nan forecasts (window not yet full) stay nan (by position: a broken tree
        # may repeat a cutoff label)
        col = got.iloc[:, j].reindex(p.index)
        if not close(col, p):
            out.append(D("update_predict_differs", "%s cutoff %d: got %s expected %s" % (desc, c, col.tolist(), p.tolist())))
            break
    return out


def oracle_detrender(case, ctx):
    """A Detrender that was updated has a trend forecaster that observed all the data:
    after fit(y1), update(y2, p2), ..., update(yk, True) it transforms like a fresh Detrender
    fitted on the union; after any update its inner forecaster's cutoff is the end of the data."""
    from sktime.forecasting.naive import NaiveForecaster
    from sktime.forecasting.trend import PolynomialTrendForecaster
    from sktime.transformations.series.detrend import Detrender

    def make():
        if case["inner"] == "mean":
            return Detrender(NaiveForecaster(strategy="mean", window_length=case["wl"]))
        if case["inner"] == "last":
            return Detrender(NaiveForecaster(strategy="last"))
        return Detrender(PolynomialTrendForecaster(degree=case["degree"]))

    master = [v + ((i * 37) % 11) / 7.0 for i, v in enumerate(case["values"])]
    start, ik = case["start"], case["index_kind"]
    n0 = case["n"]
    y1 = gen.build_series(master[:n0], start, ik)
    t = make()
    r = sut(t.fit, y1.copy())
    if isinstance(r, Raised):
        return [unexpected(r, "Detrender.fit")]
    pos = n0
    discs = []
    ctx.label(case["inner"])
    flags = case["flags"] + [True]
    ctx.mark_nontrivial(False in flags)
    for k, up in zip(case["batches"] + [case["last_batch"]], flags):
        yb = gen.build_series(master[pos: pos + k], start + pos, ik)
        pos += k
        u = sut(t.update, yb.copy(), None, up)
        if isinstance(u, Raised):
            return [D("detrender_update_raised:%s@%s" % (u.type, u.where), "flags=%s: %s" % (flags, u.msg))]
        c = sut(lambda: int(t.forecaster_.cutoff))
        if isinstance(c, Raised) or c != start + pos - 1:
            discs.append(D("detrender_update_drops_data", "flags=%s: trend forecaster cutoff %r after data up to %d" % (flags, c, start + pos - 1)))
            return discs
    union = gen.build_series(master[:pos], start, ik)
    fresh = make().fit(union.copy())
    z = gen.build_series([3.5 + 0.25 * j for j in range(5)], start + pos, ik)
    a, b = sut(t.transform, z.copy()), sut(fresh.transform, z.copy())
    if isinstance(b, Raised):
        return [D("fresh_detrender_on_union_raised:%s@%s" % (b.type, b.where), b.msg)]
    if isinstance(a, Raised) or not close(a, b):
        discs.append(D("detrender_update_not_equivalent_to_observing", "%s flags=%s: transform %s vs fresh fit on all data %s"
                       % (case["inner"], flags, a if isinstance(a, Raised) else a.tolist(), b.tolist())))
    return discs


@st.composite
def detrender_cases(draw):
    inner = draw(st.sampled_from(["mean", "mean", "last", "poly"]))
    n = draw(st.integers(8, 16))
    batches = draw(st.lists(st.integers(1, 4), min_size=1, max_size=3))
    return {"inner": inner, "wl": draw(st.integers(2, 6)), "degree": draw(st.integers(0, 2)), "n": n,
            "batches": batches, "flags": [draw(st.booleans()) for _ in batches], "last_batch": draw(st.integers(1, 4)),
            "values": draw(gen.series_values(40, 40, lo=5.0, hi=300.0)),
            "start": draw(gen.index_start), "index_kind": draw(gen.index_kind)}


def specs():
    plain = st.one_of(pools.naive_specs(), pools.naive_specs(), pools.trend_specs(),
                      st.sampled_from([{"kind": "expsmooth", "trend": None}, {"kind": "expsmooth", "trend": "add"},
                                       {"kind": "ets", "trend": None}, {"kind": "theta", "sp": 1, "deseasonalize": False}]),
                      pools.reduce_specs())
    ens = st.builds(lambda ms, a: {"kind": "ensemble", "members": ms, "aggfunc": a},
                    st.lists(st.one_of(pools.naive_specs(), pools.trend_specs()), min_size=1, max_size=3),
                    st.sampled_from(["mean", "median"]))
    mux = st.builds(lambda ms, s: {"kind": "multiplex", "members": ms, "selected": s},
                    st.lists(st.one_of(pools.naive_specs(), pools.trend_specs()), min_size=1, max_size=3), st.integers(0, 3))
    pipe = st.one_of(
        st.builds(pools._pipeline, pools.transformer_chains(2, allow_boxcox=False), st.one_of(pools.naive_specs(), pools.trend_specs())),
        # value-checked pipelines: chains of 1-3 element-wise transformers
        st.builds(lambda ts, f: {"kind": "pipeline", "transformers": ts, "forecaster": f},
                  pools.stateless_chains(1, 3), st.one_of(pools.naive_specs(), pools.trend_specs())))
    stack = st.builds(lambda ms: {"kind": "stack", "members": ms, "reg": "linear"},
                      st.lists(st.one_of(pools.naive_specs(), pools.trend_specs()), min_size=1, max_size=2))
    return st.one_of(plain, plain, ens, ens, mux, pipe, pipe, stack)


@st.composite
def cases(draw):
    spec = draw(specs())
    steps = draw(gen.fh_steps(max_step=5, max_size=3))
    n = draw(st.integers(pools.min_length(spec, steps[-1]) + 3, pools.min_length(spec, steps[-1]) + 14))
    ops = []
    for _ in range(draw(st.integers(1, 6))):
        t = draw(st.sampled_from(["update", "update", "update", "predict", "ups", "update_predict", "refit"]))
        if t in ("update", "ups"):
            k = draw(st.sampled_from([1, 2, 3, 4, 1, 2, 0]))
            # k == 0: a pure revision of the latest observations (the batch ends AT the cutoff)
            ops.append({"op": t, "k": k, "overlap": draw(st.sampled_from([0, 0, 1, 2, 3])) if k else draw(st.integers(1, 3)),
                        "revise": draw(st.booleans()) if k else True, "update_params": draw(st.sampled_from([True, True, False, False]))})
        elif t == "predict":
            ops.append({"op": "predict"})
        elif t == "refit":
            ops.append({"op": "refit"})
        else:
            wl = draw(st.integers(1, 4))
            m = draw(st.integers(wl + steps[-1], wl + steps[-1] + 6))
            ops.append({"op": "update_predict", "m": m, "cv": draw(st.sampled_from(["sliding", "expanding"])), "wl": wl,
                        "step": draw(st.integers(1, 3)), "sww": draw(st.booleans()),
                        "update_params": draw(st.sampled_from([True, False])), "other_fh": draw(st.integers(0, 2)) == 0,
                        "interrupt_after": draw(st.sampled_from([0, 0, 1, 2, 3]))})
            # ... optionally followed by a predict and / or a second update_predict
            tail = draw(st.sampled_from(["", "p", "p", "u", "pu", "up"]))
            for ch in tail:
                if ch == "p":
                    ops.append({"op": "predict"})
                else:
                    wl2 = draw(st.integers(1, 3))
                    ops.append({"op": "update_predict", "m": draw(st.integers(wl2 + steps[-1], wl2 + steps[-1] + 4)), "cv": "sliding", "wl": wl2,
                                "step": draw(st.integers(1, 2)), "sww": draw(st.booleans()), "update_params": False})
            break
    if ops and ops[-1]["op"] != "predict" and ops[-1]["op"] != "update_predict":
        ops.append({"op": "predict"})
    return {
        "spec": spec, "fh": steps, "n": n, "ops": ops,
        "values": draw(gen.series_values(24, 40, lo=5.0, hi=300.0)),
        "start": draw(gen.index_start), "index_kind": draw(gen.index_kind),
        "fh_when": draw(st.sampled_from(["fit", "fit", "predict"])),
    }


def oracle_stack_updates(case, ctx):
    """A stack fitted for fixed (absolute) time points and then updated: cutoff, labels, and the
    value under each time point recomposed from the updated members' forecasts of that time
    point (the history part of what props/c03 checks for one call)."""
    from props import c03_forecast_index as c03

    return c03.oracle(dict(case, shift=0), ctx)


def _stack_update_cases():
    from props import c03_forecast_index as c03

    return c03.stack_cases()


def subchecks():
    return [SubCheck("histories", oracle, cases(), quick=3000, thorough=20000, shards_quick=12, shards_thorough=16),
            SubCheck("stack_fixed_time_points_updates", oracle_stack_updates, _stack_update_cases(), quick=200, thorough=2000, shards_quick=4, shards_thorough=16),
            SubCheck("detrender_histories", oracle_detrender, detrender_cases(), quick=400, thorough=6000, shards_quick=2, shards_thorough=4)]


def _sel_fit_without_fh(case, disc):
    return case["fh_when"] == "predict" and "No `fh` has been set" in disc["detail"]


def _sel_members_keep_moved_cutoff(case, disc):
    return pools.is_composite(case["spec"]) and "predict_after_update_predict" in disc["detail"]


def _has_whole_series_seasonal_mean(spec):
    if isinstance(spec, dict):
        if spec.get("kind") == "naive" and spec.get("strategy") == "mean" and spec.get("wl") is None and (spec.get("sp") or 1) > 1:
            return True
        return any(_has_whole_series_seasonal_mean(v) for v in spec.values())
    if isinstance(spec, list):
        return any(_has_whole_series_seasonal_mean(v) for v in spec)
    return False


def _sel_seasonal_mean_window(case, disc):
    refitting = any(o["op"] == "update_predict" and o.get("update_params") for o in case["ops"])
    return refitting and _has_whole_series_seasonal_mean(case["spec"]) and "cannot reshape" in disc["detail"]


SELECTORS = {"fit_without_fh_then_update": _sel_fit_without_fh,
             "members_keep_moved_cutoff": _sel_members_keep_moved_cutoff,
             "seasonal_mean_window_after_update_predict": _sel_seasonal_mean_window}
