"""C04 - scikit-learn protocol: parameters, clone, fitted state (DESIGN 2/C04)."""
import importlib
import inspect
import pkgutil

import numpy as np
import pandas as pd
from hypothesis import strategies as st
from sklearn.base import clone

from harness import gen, panelpool, pools
from harness.runner import D, Raised, SubCheck, sut, unexpected

PROPERTY_ID = "C04"
LEVEL = "exploration"
RULE = (
    "(a) every estimator class of the package (absent optional dependencies stubbed) x generated "
    "constructor assignments (each optional parameter kept at its default or perturbed "
    "type-preservingly, strings from a table of documented alternatives, numbers also as numpy "
    "scalars): get_params / set_params / clone / reconstruct / unknown-name / is_fitted "
    "contract; (b) generated histories of nested get/set operations on compositions up to depth 3 "
    "against an independent parameter-tree model; (c) every apply-type method of every runnable "
    "estimator before fit and on a clone of the fitted estimator, and the fit contract. "
    "non-trivial = >= 1 non-default argument (a), nesting depth >= 2 (b), a method outside "
    "scikit-learn's own checks or a composite (c); distinct = distinct JSON of the case"
)
ASSUMPTIONS = [
    "classes whose optional dependency is absent are constructed on inert stubs (harness/stubs.py); "
    "only their constructor / parameter contract is exercised",
    "required constructor arguments come from a harness table",
]

import sktime  # noqa: E402
from sktime.base import BaseEstimator  # noqa: E402
from sktime.exceptions import NotFittedError  # noqa: E402

# ------------------------------------------------------------------------------ class registry
_SKIP_MODULES = (".tests", "contrib", "_build_utils", "__check_build", "benchmarking.evaluation", ".setup")
_REGISTRY = None
_IMPORT_ERRORS = {}


def registry():
    global _REGISTRY
    if _REGISTRY is None:
        out = {}
        for m in pkgutil.walk_packages(sktime.__path__, "sktime."):
            if any(s in m.name for s in _SKIP_MODULES) or m.name.endswith("setup"):
                continue
            try:
                mod = importlib.import_module(m.name)
            except Exception as e:  # noqa: BLE001
                _IMPORT_ERRORS[m.name] = e
                continue
            for n, c in inspect.getmembers(mod, inspect.isclass):
                if issubclass(c, BaseEstimator) and c.__module__ == m.name:
                    out[c.__module__ + "." + n] = c
        _REGISTRY = dict(sorted(out.items()))
    return _REGISTRY


# classes that are pure abstract bases (constructor not meant for users)
ABSTRACT = (
    "sktime.base._meta._HeterogenousMetaEstimator",
    "sktime.classification.compose._ensemble.ComposableTimeSeriesForestClassifier",
    "sktime.regression.compose._ensemble.ComposableTimeSeriesForestRegressor",
    "sktime.transformations.panel.tsfresh._TSFreshFeatureExtractor",
    "sktime.classification.compose._column_ensemble.BaseColumnEnsembleClassifier",
    "sktime.benchmarking.strategies.BaseStrategy",
    "sktime.benchmarking.strategies.BaseSupervisedLearningStrategy",
)


def _plain_loss(y_true, y_pred, **kwargs):
    return float(np.mean(np.abs(np.asarray(y_true, dtype=float) - np.asarray(y_pred, dtype=float))))


def required_args(name, cls):
    """Harness table of required constructor arguments (mirrors the repo's test params)."""
    from sklearn.linear_model import LinearRegression
    from sklearn.preprocessing import StandardScaler

    from sktime.classification.interval_based import TimeSeriesForestClassifier
    from sktime.forecasting.exp_smoothing import ExponentialSmoothing
    from sktime.forecasting.model_selection import SingleWindowSplitter
    from sktime.forecasting.naive import NaiveForecaster
    from sktime.forecasting.trend import PolynomialTrendForecaster
    from sktime.regression.interval_based import TimeSeriesForestRegressor
    from sktime.transformations.panel.reduce import Tabularizer
    from sktime.transformations.series.boxcox import LogTransformer
    from sktime.transformations.series.detrend import Deseasonalizer
    from sktime.transformations.series.summarize import MeanTransformer

    short = name.rsplit(".", 1)[1]
    fcs = [("a", NaiveForecaster()), ("b", PolynomialTrendForecaster())]
    table = {
        "estimator": LinearRegression(),
        "estimators": [("tsf", TimeSeriesForestClassifier(n_estimators=2), [0])],
        "forecasters": fcs,
        "steps": [("t", Deseasonalizer()), ("f", NaiveForecaster())],
        "final_regressor": LinearRegression(),
        "forecaster": NaiveForecaster(),
        "cv": SingleWindowSplitter(fh=1),
        "param_grid": {"window_length": [2, 5]},
        "param_distributions": {"window_length": [2, 5]},
        "model": LinearRegression(),
        "transformer_list": [("a", Tabularizer())],
        "transformers": [("a", Tabularizer(), [0])],
        "transformer": LogTransformer(),
        "length": 10,
        "param_names": ["initial_level"],
        "func": _plain_loss,  # metric classes built from a user's function (make_forecasting_scorer)
    }
    if "strategies" in name:
        table["estimator"] = TimeSeriesForestRegressor(n_estimators=2) if short == "TSRStrategy" else TimeSeriesForestClassifier(n_estimators=2)
    if short == "TabularToSeriesAdaptor":
        table["transformer"] = StandardScaler()
    if short == "SeriesToPrimitivesRowTransformer":
        table["transformer"] = MeanTransformer()
    if short == "FittedParamExtractor":
        table["forecaster"] = ExponentialSmoothing()
    sig = inspect.signature(cls.__init__)
    out = {}
    for p in sig.parameters.values():
        if p.name == "self" or p.kind in (p.VAR_KEYWORD, p.VAR_POSITIONAL):
            continue
        if p.default is inspect._empty:
            if p.name not in table:
                return None
            out[p.name] = table[p.name]
    return out


class _Sentinel:
    """A unique, harmless object used where a default is None."""

    def __init__(self, tag):
        self.tag = tag

    def __repr__(self):
        return "<sentinel %s>" % self.tag

    def __eq__(self, other):
        return isinstance(other, _Sentinel) and other.tag == self.tag

    def __hash__(self):
        return hash(self.tag)


STRING_ALTERNATIVES = {
    ("strategy", "refit"): "update", ("strategy", "last"): "mean", ("strategy", "recursive"): "direct",
    ("aggfunc", "mean"): "median", ("model", "additive"): "multiplicative", ("method", "mle"): "pearsonr",
    ("method", "drift"): "mean", ("method", "ywadjusted"): "ols", ("missing", "none"): "drop",
    ("n_intervals", "sqrt"): "log", ("remainder", "drop"): "passthrough", ("error", "add"): "mul",
    ("initialization_method", "estimated"): "heuristic", ("information_criterion", "aic"): "bic",
    ("pre_dispatch", "2*n_jobs"): "n_jobs",
}


def perturb(pname, default, choice):
    """Type-preserving perturbation of a default value (choice: small int from the generator)."""
    if isinstance(default, bool):
        return not default
    if isinstance(default, (int, np.integer)):
        return int(default) + [1, 2, -1, 3, 0][choice % 5] if int(default) + [1, 2, -1, 3, 0][choice % 5] != int(default) else int(default) + 1
    if isinstance(default, float):
        return float(default) * 0.5 + 0.25 + choice
    if isinstance(default, str):
        alt = STRING_ALTERNATIVES.get((pname, default))
        if alt is not None:
            return alt
        return default + "_alt" if choice % 2 else default
    if default is None:
        return _Sentinel(pname)
    if isinstance(default, (list, tuple)):
        return type(default)(list(default) + list(default)[:1])
    return default


def prim(v):
    return v is None or isinstance(v, (bool, int, float, str, np.integer, np.floating))


def same_value(a, b):
    if a is b:
        return True
    if prim(a) and prim(b):
        try:
            return bool(a == b) and type(a) is type(b)
        except Exception:  # noqa: BLE001
            return False
    return False


def params_equal(e1, e2, depth=0):
    """Parameter equality of two estimators (recursively for estimator-valued parameters)."""
    if type(e1) is not type(e2):
        return False
    p1, p2 = e1.get_params(deep=False), e2.get_params(deep=False)
    if set(p1) != set(p2):
        return False
    for k in p1:
        if not value_equal(p1[k], p2[k], depth):
            return False
    return True


def value_equal(a, b, depth=0):
    if a is b:
        return True
    if hasattr(a, "get_params") and not isinstance(a, type) and depth < 6:
        return hasattr(b, "get_params") and params_equal(a, b, depth + 1)
    if isinstance(a, (list, tuple)) and isinstance(b, (list, tuple)):
        return len(a) == len(b) and type(a) is type(b) and all(value_equal(x, y, depth) for x, y in zip(a, b))
    if isinstance(a, dict) and isinstance(b, dict):
        return set(a) == set(b) and all(value_equal(a[k], b[k], depth) for k in a)
    if isinstance(a, np.ndarray) or isinstance(b, np.ndarray):
        return isinstance(a, np.ndarray) and isinstance(b, np.ndarray) and np.array_equal(a, b)
    try:
        if bool(a == b):
            return True
    except Exception:  # noqa: BLE001
        pass
    # plain objects without value equality (splitters, metric objects): same type and state
    if type(a) is type(b) and hasattr(a, "__dict__") and depth < 6:
        return value_equal(vars(a), vars(b), depth + 1)
    return False


def oracle_constructor(case, ctx):
    reg = registry()
    names = [n for n in reg if n not in ABSTRACT]
    name = names[case["cls"] % len(names)]
    cls = reg[name]
    short = name.rsplit(".", 1)[1]
    ctx.label(short)
    req = required_args(name, cls)
    if req is None:
        ctx.label("no_required_args_in_table")
        return []
    sig = inspect.signature(cls.__init__)
    pnames = [p.name for p in sig.parameters.values() if p.name != "self" and p.kind not in (p.VAR_KEYWORD, p.VAR_POSITIONAL)]
    kwargs = dict(req)
    n_perturbed = 0
    for i, p in enumerate(pnames):
        if p in req:
            continue
        d = sig.parameters[p].default
        if case["mask"][i % len(case["mask"])]:
            v = perturb(p, d, case["choice"] + i)
            if case.get("np_scalars") and not isinstance(v, bool):
                # numpy scalars are what an element of np.arange / a numpy parameter grid is
                if isinstance(v, int):
                    v = np.int64(v)
                elif isinstance(v, float):
                    v = np.float64(v)
            if v is not d and not (prim(v) and prim(d) and v == d):
                kwargs[p] = v
                n_perturbed += 1
    ctx.mark_nontrivial(n_perturbed >= 1)
    discs = []
    e = sut(cls, **kwargs)
    if isinstance(e, Raised):
        if n_perturbed and e.is_a(ValueError, TypeError, AssertionError):
            # a perturbed value was refused: retry with defaults only
            ctx.mark_rejected()
            kwargs = dict(req)
            n_perturbed = 0
            e = sut(cls, **kwargs)
        if isinstance(e, Raised):
            return [D("construction_fails:%s" % short, "%s(%s): %r" % (short, sorted(kwargs), e))]
    gp = sut(e.get_params, deep=False)
    if isinstance(gp, Raised):
        return [D("get_params_raises:%s" % short, repr(gp))]
    if set(gp) != set(pnames):
        discs.append(D("get_params_names:%s" % short, "get_params has %s, signature has %s" % (sorted(gp), sorted(pnames))))
        return discs
    for p in pnames:
        passed = kwargs[p] if p in kwargs else sig.parameters[p].default
        if not same_value(gp[p], passed):
            discs.append(D("constructor_changes_argument:%s.%s" % (short, p),
                           "%s(%s=%r).get_params()[%r] is %r" % (short, p, passed, p, gp[p])))
    if discs:
        return discs
    # clone (sklearn's clone itself raises when the constructor does not keep its arguments)
    c = sut(clone, e)
    if isinstance(c, Raised):
        discs.append(D("clone_fails:%s" % short, "%r" % (c,)))
    else:
        if not params_equal(e, c):
            discs.append(D("clone_params_differ:%s" % short, "%r vs %r" % (e.get_params(deep=False), c.get_params(deep=False))))
        if getattr(c, "is_fitted", False) is not False:
            discs.append(D("clone_is_fitted:%s" % short, repr(getattr(c, "is_fitted", None))))
    r = sut(lambda: type(e)(**gp))
    if isinstance(r, Raised):
        discs.append(D("reconstruct_fails:%s" % short, repr(r)))
    elif not params_equal(e, r):
        discs.append(D("reconstruct_params_differ:%s" % short, ""))
    s = sut(lambda: e.set_params(**e.get_params(deep=False)))
    if isinstance(s, Raised):
        discs.append(D("set_params_roundtrip_raises:%s" % short, repr(s)))
    else:
        if s is not e:
            discs.append(D("set_params_not_self:%s" % short, ""))
        gp2 = e.get_params(deep=False)
        for p in pnames:
            if not (gp2[p] is gp[p] or same_value(gp2[p], gp[p]) or value_equal(gp2[p], gp[p])):
                discs.append(D("set_params_roundtrip_changes:%s.%s" % (short, p), "%r -> %r" % (gp[p], gp2[p])))
    u = sut(lambda: e.set_params(this_parameter_does_not_exist=1))
    if not (isinstance(u, Raised) and u.is_a(ValueError)):
        discs.append(D("unknown_parameter_accepted:%s" % short, repr(u)))
    if hasattr(e, "is_fitted"):
        f = sut(lambda: e.is_fitted)
        if f is not False:
            discs.append(D("new_estimator_is_fitted:%s" % short, repr(f)))
    return discs


@st.composite
def constructor_cases(draw):
    return {"cls": draw(st.integers(0, 400)), "mask": draw(st.lists(st.booleans(), min_size=4, max_size=12)),
            "choice": draw(st.integers(0, 5)), "np_scalars": draw(st.integers(0, 3)) == 0}


def enum_constructor_defaults(tier):
    n = len([k for k in registry() if k not in ABSTRACT])
    for i in range(n):
        yield {"cls": i, "mask": [False], "choice": 0}
    for i in range(n):
        yield {"cls": i, "mask": [True], "choice": 1}
    for i in range(n):
        yield {"cls": i, "mask": [True], "choice": 1, "np_scalars": True}


# ------------------------------------------------------------------------------ nested parameter histories
def _cls_table():
    from sklearn.linear_model import LinearRegression, Ridge
    from sklearn.preprocessing import MinMaxScaler, StandardScaler

    from sktime.classification.compose import ColumnEnsembleClassifier
    from sktime.classification.interval_based import TimeSeriesForestClassifier
    from sktime.forecasting.compose import (
        EnsembleForecaster,
        MultiplexForecaster,
        RecursiveTabularRegressionForecaster,
        StackingForecaster,
        TransformedTargetForecaster,
    )
    from sktime.forecasting.model_selection import ForecastingGridSearchCV, SingleWindowSplitter
    from sktime.forecasting.naive import NaiveForecaster
    from sktime.forecasting.trend import PolynomialTrendForecaster
    from sktime.performance_metrics.forecasting._classes import _MetricFunctionWrapper
    from sktime.transformations.series.adapt import TabularToSeriesAdaptor
    from sktime.transformations.series.boxcox import LogTransformer
    from sktime.transformations.series.compose import OptionalPassthrough
    from sktime.transformations.series.detrend import Deseasonalizer, Detrender

    return {
        "naive": (NaiveForecaster, None), "trend": (PolynomialTrendForecaster, None),
        "deseason": (Deseasonalizer, None), "log": (LogTransformer, None),
        "linreg": (LinearRegression, None), "ridge": (Ridge, None), "scaler": (StandardScaler, None),
        "minmax": (MinMaxScaler, None), "tsf": (TimeSeriesForestClassifier, None),
        "ensemble": (EnsembleForecaster, "forecasters"), "pipeline": (TransformedTargetForecaster, "steps"),
        "multiplex": (MultiplexForecaster, "forecasters"), "stack": (StackingForecaster, "forecasters"),
        "reduce": (RecursiveTabularRegressionForecaster, None), "detrender": (Detrender, None),
        "passthrough": (OptionalPassthrough, None), "adaptor": (TabularToSeriesAdaptor, None),
        "gscv": (ForecastingGridSearchCV, None), "colens": (ColumnEnsembleClassifier, "estimators"),
        "cv": (SingleWindowSplitter, None), "scorer": (_MetricFunctionWrapper, None),
        "drop": (str, None),  # the documented "drop" specifier in a column ensemble's list
    }


def node(cls, **params):
    return {"cls": cls, "params": params}


def is_node(v):
    return isinstance(v, dict) and "cls" in v and "params" in v


def build_node(n):
    if n["cls"] == "drop":
        return "drop"
    T = _cls_table()
    cls, attr = T[n["cls"]]
    kw = {}
    for k, v in n["params"].items():
        if k == attr:
            if n["cls"] == "colens":
                kw[k] = [(nm, build_node(ch), [0]) for nm, ch in v]
            else:
                kw[k] = [(nm, build_node(ch)) for nm, ch in v]
        elif is_node(v):
            kw[k] = build_node(v)
        elif k == "param_grid":
            kw[k] = dict(v)
        elif v == "fn:plain_loss":
            kw[k] = _plain_loss
        else:
            kw[k] = v
    if n["cls"] == "cv":
        return cls(fh=1)
    return cls(**kw)


def full_params(n):
    if n["cls"] == "drop":
        return {}
    T = _cls_table()
    cls, attr = T[n["cls"]]
    sig = inspect.signature(cls.__init__)
    out = {}
    for p in sig.parameters.values():
        if p.name == "self" or p.kind in (p.VAR_KEYWORD, p.VAR_POSITIONAL):
            continue
        out[p.name] = n["params"][p.name] if p.name in n["params"] else p.default
    return out


def expected_deep(n):
    T = _cls_table()
    _, attr = T[n["cls"]]
    out = {}
    for k, v in full_params(n).items():
        out[k] = v
        if is_node(v) and v["cls"] != "cv":
            for kk, vv in expected_deep(v).items():
                out["%s__%s" % (k, kk)] = vv
    if attr:
        for nm, ch in n["params"][attr]:
            out[nm] = ch
            for kk, vv in expected_deep(ch).items():
                out["%s__%s" % (nm, kk)] = vv
    return out


def matches(actual, exp, attr_of=None):
    """Does the real value `actual` correspond to the model value `exp`?"""
    T = _cls_table()
    if is_node(exp):
        if exp["cls"] == "drop":
            return isinstance(actual, str) and actual == "drop"
        cls, attr = T[exp["cls"]]
        if type(actual) is not cls:
            return False
        if exp["cls"] == "cv":
            return True
        gp = actual.get_params(deep=False)
        fp = full_params(exp)
        if set(gp) != set(fp):
            return False
        return all(matches(gp[k], fp[k], (exp["cls"], k)) for k in fp)
    if isinstance(exp, list) and exp and isinstance(exp[0], (list, tuple)) and len(exp[0]) == 2 and is_node(exp[0][1]):
        if not isinstance(actual, list) or len(actual) != len(exp):
            return False
        for a, (nm, ch) in zip(actual, exp):
            if a[0] != nm or not matches(a[1], ch):
                return False
        return True
    if isinstance(exp, dict):
        return isinstance(actual, dict) and actual == exp
    if exp is inspect._empty:
        return False
    if isinstance(exp, str) and exp == "fn:plain_loss":
        return actual is _plain_loss
    try:
        return actual is exp or bool(actual == exp)
    except Exception:  # noqa: BLE001
        return False


def leaf_paths(n, prefix=""):
    """Paths of primitive parameters that can be set, with their current model value."""
    T = _cls_table()
    _, attr = T[n["cls"]]
    out = []
    for k, v in full_params(n).items():
        if k == attr or k in ("param_grid", "cv", "random_state", "n_jobs", "func"):
            continue
        if is_node(v):
            if v["cls"] != "cv":
                out += leaf_paths(v, prefix + k + "__")
        elif isinstance(v, (bool, int, float)) or (isinstance(v, str)):
            out.append((prefix + k, n, k, v))
    if attr:
        for nm, ch in n["params"][attr]:
            out += leaf_paths(ch, prefix + nm + "__")
    return out


def composite_paths(n, prefix=""):
    T = _cls_table()
    _, attr = T[n["cls"]]
    out = []
    if attr:
        out.append((prefix, n, attr))
        for nm, ch in n["params"][attr]:
            out += composite_paths(ch, prefix + nm + "__")
    for k, v in n["params"].items():
        if is_node(v) and k != attr:
            out += composite_paths(v, prefix + k + "__")
    return out


def depth(n):
    T = _cls_table()
    _, attr = T[n["cls"]]
    d = 0
    for k, v in n["params"].items():
        if k == attr:
            d = max([d] + [depth(ch) for _, ch in v])
        elif is_node(v):
            d = max(d, depth(v))
    return 1 + d


NEW_VALUES = {
    "strategy": ["last", "mean", "drift"], "aggfunc": ["mean", "median", "min", "max"],
    "model": ["additive", "multiplicative"], "selected_forecaster": ["m_a", "m_b", "m_c"],
}


def new_value(key, old, choice):
    if key in NEW_VALUES:
        return NEW_VALUES[key][choice % len(NEW_VALUES[key])]
    if isinstance(old, bool):
        return not old
    if isinstance(old, int):
        return old + 1 + choice % 3
    if isinstance(old, float):
        return old + 0.5 + choice
    return old


def leaf_node(choice):
    opts = [node("naive"), node("naive", strategy="mean", window_length=3), node("trend", degree=2),
            node("naive", strategy="drift"), node("trend", degree=1, with_intercept=False)]
    return opts[choice % len(opts)]


def compare_deep(real, model, where):
    exp = sut(expected_deep, model)
    if isinstance(exp, Raised):
        raise AssertionError("model error: %r" % (exp,))
    got = sut(real.get_params, deep=True)
    if isinstance(got, Raised):
        return [D("get_params_deep_raises", "%s: %r" % (where, got))]
    if set(got) != set(exp):
        return [D("deep_param_names", "%s: missing %s unexpected %s" % (where, sorted(set(exp) - set(got))[:6], sorted(set(got) - set(exp))[:6]))]
    out = []
    for k in sorted(exp):
        if not matches(got[k], exp[k]):
            out.append(D("deep_param_value", "%s: %s is %r, model has %r" % (where, k, got[k], exp[k] if not is_node(exp[k]) else exp[k]["cls"])))
            break
    return out


def oracle_nested(case, ctx):
    import json

    model = json.loads(json.dumps(case["root"]))  # no aliasing between sub-trees
    real = sut(build_node, model)
    if isinstance(real, Raised):
        raise AssertionError("cannot build %r: %r" % (model, real))
    d = depth(model)
    ctx.label("depth=%d" % d)
    ctx.label(model["cls"])
    ctx.mark_nontrivial(d >= 2)
    discs = compare_deep(real, model, "initial")
    if discs:
        return discs
    for i, op in enumerate(case["ops"]):
        kind = op["op"]
        where = "after op %d (%s)" % (i, kind)
        if kind == "set_leaf":
            leaves = leaf_paths(model)
            if not leaves:
                continue
            path, n, key, old = leaves[op["i"] % len(leaves)]
            v = new_value(key, old, op["c"])
            r = sut(real.set_params, **{path: v})
            if isinstance(r, Raised):
                return [D("set_params_raises:%s" % r.type, "%s %s=%r: %s" % (where, path, v, r.msg))]
            if r is not real:
                return [D("set_params_not_self", where)]
            n["params"][key] = v
            where += " %s=%r" % (path, v)
        elif kind == "replace_component":
            comps = composite_paths(model)
            if not comps:
                continue
            prefix, n, attr = comps[op["i"] % len(comps)]
            items = n["params"][attr]
            j = op["j"] % len(items)
            new = leaf_node(op["c"])
            if n["cls"] == "pipeline" and j < len(items) - 1:
                new = node("deseason", sp=2 + op["c"] % 3)
            if n["cls"] == "colens":
                new = node("tsf", n_estimators=2 + op["c"] % 3)
            r = sut(real.set_params, **{prefix + items[j][0]: build_node(new)})
            if isinstance(r, Raised):
                return [D("set_params_raises:%s" % r.type, "%s replace %s%s: %s" % (where, prefix, items[j][0], r.msg))]
            items[j] = [items[j][0], new]
            where += " %s%s" % (prefix, items[j][0])
        elif kind == "replace_list":
            comps = [c for c in composite_paths(model) if c[1]["cls"] in ("ensemble", "multiplex", "stack")]
            if not comps:
                continue
            prefix, n, attr = comps[op["i"] % len(comps)]
            names = ["n_" + ch for ch in "xyz"][: 1 + op["c"] % 3]
            new_items = [[nm, leaf_node(op["c"] + t)] for t, nm in enumerate(names)]
            r = sut(real.set_params, **{prefix + attr: [(nm, build_node(ch)) for nm, ch in new_items]})
            if isinstance(r, Raised):
                return [D("set_params_raises:%s" % r.type, "%s replace list %s%s: %s" % (where, prefix, attr, r.msg))]
            n["params"][attr] = new_items
            where += " %s%s" % (prefix, attr)
        elif kind == "list_and_component":
            # one call that sets the whole list and, by name, a component of the NEW list
            comps = [c for c in composite_paths(model) if c[1]["cls"] in ("ensemble", "multiplex", "stack")]
            if not comps:
                continue
            prefix, n, attr = comps[op["i"] % len(comps)]
            new_items = [["n_" + "p", leaf_node(op["c"])], ["n_" + "q", leaf_node(op["c"] + 1)]]
            repl = leaf_node(op["c"] + 2)
            r = sut(real.set_params, **{prefix + attr: [(nm, build_node(ch)) for nm, ch in new_items],
                                        prefix + "n_q": build_node(repl)})
            if isinstance(r, Raised):
                return [D("set_params_raises:%s" % r.type, "%s list+component: %s" % (where, r.msg))]
            new_items[1] = ["n_q", repl]
            n["params"][attr] = new_items
        elif kind == "clone":
            real = sut(clone, real)
            if isinstance(real, Raised):
                return [D("clone_fails", "%s: %r" % (where, real))]
        elif kind == "unknown":
            leaves = leaf_paths(model)
            comps = composite_paths(model)
            bad = "no_such_param"
            if comps and op["c"] % 2:
                prefix, n, attr = comps[op["i"] % len(comps)]
                bad = prefix + "no_such_component__x"
            elif leaves:
                path = leaves[op["i"] % len(leaves)][0]
                bad = path.rsplit("__", 1)[0] + "__no_such_param" if "__" in path else "no_such_param"
            r = sut(real.set_params, **{bad: 1})
            if not (isinstance(r, Raised) and r.is_a(ValueError)):
                return [D("unknown_path_accepted", "%s set_params(%s=1) -> %r" % (where, bad, r))]
        discs = compare_deep(real, model, where)
        if discs:
            return discs
    return discs


# component names as a program makes them (built at run time, several characters): not the
# interned single-letter literals of a hand-written example
_NAMES = ["m_" + ch for ch in "abc"]


def enum_replace_components(tier):
    """Every composite kind, two nesting depths: every component is replaced by name once."""
    lf = [node("naive"), node("trend", degree=2), node("naive", strategy="mean", window_length=4)]
    fcs = lambda ms: [[nm, m] for nm, m in zip(_NAMES, ms)]  # noqa: E731
    roots = [
        node("ensemble", forecasters=fcs(lf)),
        node("multiplex", forecasters=fcs(lf), selected_forecaster=_NAMES[0]),
        node("stack", forecasters=fcs(lf[:2]), final_regressor=node("linreg")),
        node("pipeline", steps=[["t%d" % 0, node("deseason", sp=2)], ["t%d" % 1, node("log")], ["fc", lf[0]]]),
        node("colens", estimators=[["m%d" % i, node("tsf", n_estimators=2 + i)] for i in range(2)]),
        node("colens", estimators=[["m%d" % 0, node("drop")], ["m%d" % 1, node("tsf", n_estimators=2)], ["m%d" % 2, node("tsf", n_estimators=3)]]),
        node("ensemble", forecasters=fcs([node("pipeline", steps=[["t%d" % 0, node("log")], ["fc", lf[1]]]),
                                          node("multiplex", forecasters=fcs(lf[:2]), selected_forecaster=_NAMES[0])])),
        node("gscv", forecaster=node("ensemble", forecasters=fcs(lf[:2])), cv=node("cv"), param_grid={"window_length": [2, 3]}),
    ]
    for root in roots:
        for i in range(len(composite_paths(root))):
            for j in range(3):
                yield {"root": root, "ops": [{"op": "replace_component", "i": i, "j": j, "c": j + 1}, {"op": "clone", "i": 0, "j": 0, "c": 0}]}


def _roots():
    leaf = st.sampled_from([node("naive"), node("naive", strategy="mean", window_length=4), node("trend", degree=2)])
    tr = st.sampled_from([node("deseason", sp=2), node("log"), node("adaptor", transformer=node("scaler")),
                          node("detrender", forecaster=node("trend", degree=1)),
                          node("passthrough", transformer=node("log"), passthrough=False)])

    def ens(inner):
        return st.builds(lambda ms: node("ensemble", forecasters=[[nm, m] for nm, m in zip(_NAMES, ms)]),
                         st.lists(inner, min_size=1, max_size=3))

    def mux(inner):
        return st.builds(lambda ms: node("multiplex", forecasters=[[nm, m] for nm, m in zip(_NAMES, ms)], selected_forecaster=_NAMES[0]),
                         st.lists(inner, min_size=1, max_size=3))

    def stack(inner):
        return st.builds(lambda ms: node("stack", forecasters=[[nm, m] for nm, m in zip(_NAMES, ms)], final_regressor=node("linreg")),
                         st.lists(inner, min_size=1, max_size=2))

    def pipe(inner):
        return st.builds(lambda ts, f: node("pipeline", steps=[["t%d" % i, t] for i, t in enumerate(ts)] + [["fc", f]]),
                         st.lists(tr, min_size=1, max_size=2), inner)

    def red():
        return st.sampled_from([node("reduce", estimator=node("linreg"), window_length=3),
                                node("reduce", estimator=node("ridge", alpha=0.5), window_length=2)])

    def gs(inner):
        # the scoring argument: none, or a scorer made from the user's own function (make_forecasting_scorer)
        return st.builds(lambda f, sc: node("gscv", forecaster=f, cv=node("cv"), param_grid={"window_length": [2, 3]},
                                            **({"scoring": node("scorer", func="fn:plain_loss", name="plain", greater_is_better=sc == 2)} if sc else {})),
                         inner, st.integers(0, 2))

    lvl0 = st.one_of(leaf, red())
    lvl1 = st.one_of(ens(lvl0), mux(lvl0), stack(lvl0), pipe(lvl0), gs(leaf))
    lvl2 = st.one_of(ens(st.one_of(lvl0, lvl1)), pipe(lvl1), mux(st.one_of(lvl0, lvl1)), stack(st.one_of(lvl0, lvl1)), gs(lvl1))
    # (an entry may be the string "drop" instead of an estimator: it stays a named entry of the list)
    colens = st.builds(lambda k, dr: node("colens", estimators=[["m%d" % i, node("drop") if i == dr else node("tsf", n_estimators=2 + i)] for i in range(k)]),
                       st.integers(1, 3), st.integers(0, 5))
    return st.one_of(lvl1, lvl2, lvl2, colens)


@st.composite
def nested_cases(draw):
    ops = draw(st.lists(st.fixed_dictionaries({
        "op": st.sampled_from(["set_leaf", "set_leaf", "replace_component", "replace_list", "list_and_component", "clone", "unknown"]),
        "i": st.integers(0, 30), "j": st.integers(0, 5), "c": st.integers(0, 7)}), min_size=1, max_size=8))
    return {"root": draw(_roots()), "ops": ops}


# ------------------------------------------------------------------------------ fitted-state guard and fit contract
APPLY = ("predict", "predict_proba", "transform", "inverse_transform", "update", "update_predict",
         "update_predict_single", "score")


def _snapshot(est):
    gp = est.get_params(deep=True)
    return {k: v for k, v in gp.items()}


def _component_state(params):
    """Fitted-state fingerprint of every estimator object among the (deep) parameter values."""
    from sklearn.base import BaseEstimator as SkBase

    out = {}
    for k, v in params.items():
        if isinstance(v, SkBase):
            fitted = sorted(a for a in vars(v) if a.endswith("_") and not a.startswith("_"))
            out[k] = (bool(getattr(v, "is_fitted", False)), tuple(fitted))
    return out


def _unchanged(before, after):
    out = []
    if set(before) != set(after):
        return ["parameter names changed: %s" % sorted(set(before) ^ set(after))[:5]]
    for k, v in before.items():
        w = after[k]
        if v is w:
            continue
        if prim(v) and prim(w) and same_value(v, w):
            continue
        if isinstance(v, (list, tuple, dict)) and value_equal(v, w):
            continue
        out.append("%s: %r -> %r" % (k, v, w))
    return out


def oracle_fitted_state(case, ctx):
    from sktime.forecasting.model_selection import SlidingWindowSplitter

    kind = case["family"]
    discs = []
    if kind == "forecaster":
        spec = case["spec"]
        desc = pools.describe(spec)
        n = pools.min_length(spec, 3) + 8
        vals = [v + ((i * 37) % 11) / 7.0 for i, v in enumerate((case["values"] * 4)[: n + 4])]
        y = gen.build_series(vals[:n], case["start"], "range")
        y_new = gen.build_series(vals[n: n + 4], case["start"] + n, "range")
        est = pools.build_forecaster(spec)
        fit = lambda e: e.fit(y.copy(), None, [1, 2])  # noqa: E731
        calls = {
            "predict": lambda e: e.predict([1, 2]),
            "update": lambda e: e.update(y_new.copy()),
            "update_predict": lambda e: e.update_predict(y_new.copy(), SlidingWindowSplitter(fh=[1, 2], window_length=1)),
            "update_predict_single": lambda e: e.update_predict_single(y_new.copy(), [1, 2]),
            "score": lambda e: e.score(y_new.iloc[:2], fh=[1, 2]),
            # the same entry points with their optional arguments left out: the fitted-state
            # guard comes before any argument checking
            "predict_without_fh": lambda e: e.predict(),
            "score_without_fh": lambda e: e.score(y_new.iloc[:2]),
            "update_predict_single_without_fh": lambda e: e.update_predict_single(y_new.copy()),
            # ... and with a batch that holds no observation (a documented no-op once fitted)
            "update_with_empty_batch": lambda e: e.update(y_new.iloc[:0].copy()),
            "update_with_empty_batch_no_refit": lambda e: e.update(y_new.iloc[:0].copy(), None, False),
        }
        if spec["kind"] == "pipeline":
            calls["transform"] = lambda e: e.transform(y.copy())
            calls["inverse_transform"] = lambda e: e.inverse_transform(y.copy())
        ctx.mark_nontrivial(True)
    elif kind == "series_transformer":
        spec = case["spec"]
        desc = spec["kind"]
        vals = [v + ((i * 37) % 11) / 7.0 for i, v in enumerate((case["values"] * 4)[:30])]
        z = gen.build_series(vals[:24], case["start"], "range")
        z_new = gen.build_series(vals[24:30], case["start"] + 24, "range")
        est = panelpool.build_series_transformer(spec)
        fit = lambda e: e.fit(z.copy())  # noqa: E731
        calls = {"transform": lambda e: e.transform(z.copy())}
        if hasattr(est, "inverse_transform"):
            calls["inverse_transform"] = lambda e: e.inverse_transform(z.copy())
        if hasattr(est, "update"):
            calls["update"] = lambda e: e.update(z_new.copy())
        ctx.mark_nontrivial("update" in calls or "inverse_transform" in calls)
    elif kind == "panel_transformer":
        spec = case["spec"]
        desc = spec["kind"]
        c = 1 if spec["kind"] in panelpool.UNIVARIATE_ONLY else 1 + case["seed"] % 2
        X = panelpool.to_nested(panelpool.panel_values(case["seed"], 6, c, 20))
        yl = panelpool.labels_for(6, "int")
        est = panelpool.build_panel_transformer(spec)
        fit = lambda e: e.fit(X.copy(), yl)  # noqa: E731
        calls = {"transform": lambda e: e.transform(X.copy())}
        ctx.mark_nontrivial(spec["kind"] in ("s2srow", "s2prow", "rife", "riseg"))
    else:
        spec = case["spec"]
        desc = spec["kind"]
        c = 2 if spec["kind"] in ("muse",) else 1
        if spec["kind"] == "cec":
            c = spec.get("n_columns", 1)
        X = panelpool.to_nested(panelpool.panel_values(case["seed"], 8, c, 24))
        if spec["kind"] == "tsfr":
            yl = np.linspace(0.0, 1.0, 8)
        else:
            yl = panelpool.labels_for(8, "str")
        est = panelpool.build_classifier(spec)
        fit = lambda e: e.fit(X.copy(), yl)  # noqa: E731
        calls = {"predict": lambda e: e.predict(X.copy()), "score": lambda e: e.score(X.copy(), yl)}
        if spec["kind"] != "tsfr":
            calls["predict_proba"] = lambda e: e.predict_proba(X.copy())
        ctx.mark_nontrivial(spec["kind"] in ("cec", "tsfr") or True)
    ctx.label("%s:%s" % (kind, desc.split("(")[0]))

    def guard(e, when):
        out = []
        for name, fn in calls.items():
            r = sut(fn, e)
            if not (isinstance(r, Raised) and r.is_a(NotFittedError)):
                out.append(D("not_fitted_guard:%s.%s" % (type(e).__name__, name),
                             "%s %s: %s() -> %s" % (desc, when, name, ("returned " + type(r).__name__) if not isinstance(r, Raised) else repr(r))))
        return out

    if sut(lambda: est.is_fitted) is not False:
        discs.append(D("new_estimator_is_fitted:%s" % type(est).__name__, desc))
    discs += guard(est, "before fit")
    if discs:
        return discs
    before = _snapshot(est)
    comp_before = _component_state(before)
    r = sut(fit, est)
    if isinstance(r, Raised):
        # valid data, valid configuration: on the unchanged tree this fit always succeeds
        return discs + [D("valid_fit_rejected:%s:%s@%s" % (type(est).__name__, r.type, r.where), "%s: %s" % (desc, r.msg))]
    if r is not est:
        discs.append(D("fit_not_self:%s" % type(est).__name__, desc))
    if sut(lambda: est.is_fitted) is not True:
        discs.append(D("is_fitted_false_after_fit:%s" % type(est).__name__, desc))
    ch = _unchanged(before, _snapshot(est))
    if ch:
        discs.append(D("fit_changes_parameter:%s" % type(est).__name__, "%s: %s" % (desc, ch[:3])))
    else:
        # ... and the component objects given to the constructor stay the unfitted templates
        # they were: fitting works on clones
        comp_after = _component_state(_snapshot(est))
        touched = [k for k in comp_before if comp_after.get(k) != comp_before[k]]
        if touched:
            discs.append(D("fit_fits_constructor_component:%s" % type(est).__name__, "%s: %s" % (
                desc, ["%s: %s -> %s" % (k, comp_before[k], comp_after.get(k)) for k in touched[:3]])))
    if kind in ("forecaster", "series_transformer") and not discs:
        # fit never writes to the constructor parameters, whatever the data are like: also on
        # series too short for the configuration (a fit that is refused, or one that falls
        # back to something simpler, leaves get_params() as it was)
        src = y if kind == "forecaster" else z
        for k in (3, 5, 7, 11):
            if k >= len(src):
                break
            e2 = pools.build_forecaster(spec) if kind == "forecaster" else panelpool.build_series_transformer(spec)
            b2 = _snapshot(e2)
            sut(lambda: e2.fit(src.iloc[:k].copy(), None, [1, 2]) if kind == "forecaster" else e2.fit(src.iloc[:k].copy()))
            ch2 = _unchanged(b2, _snapshot(e2))
            if ch2:
                discs.append(D("fit_changes_parameter:%s" % type(e2).__name__, "%s fitted on the first %d observations: %s" % (desc, k, ch2[:3])))
                break
    c = sut(clone, est)
    if isinstance(c, Raised):
        discs.append(D("clone_of_fitted_fails:%s" % type(est).__name__, repr(c)))
    else:
        if sut(lambda: c.is_fitted) is not False:
            discs.append(D("clone_is_fitted:%s" % type(est).__name__, desc))
        discs += guard(c, "on clone of fitted")
    # the fitted estimator still answers
    for name, fn in calls.items():
        if name in ("score",) or name.endswith("_without_fh"):
            continue
        r2 = sut(fn, est)
        if isinstance(r2, Raised) and r2.is_a(NotFittedError):
            discs.append(D("fitted_estimator_reports_not_fitted:%s.%s" % (type(est).__name__, name), desc))
        break
    return discs


@st.composite
def fitted_cases(draw):
    family = draw(st.sampled_from(["forecaster", "forecaster", "series_transformer", "panel_transformer", "panel_estimator"]))
    c = {"family": family, "values": draw(gen.series_values(10, 10, lo=5.0, hi=200.0)),
         "start": draw(gen.index_start), "seed": draw(st.integers(0, 10 ** 6))}
    if family == "forecaster":
        c["spec"] = draw(pools.forecaster_specs(max_depth=1))
    elif family == "series_transformer":
        c["spec"] = draw(panelpool.series_transformer_specs)
    elif family == "panel_transformer":
        c["spec"] = {"kind": draw(st.sampled_from(panelpool.PANEL_TRANSFORMERS))}
    else:
        k = draw(st.sampled_from(panelpool.CLASSIFIERS + ("tsfr",)))
        c["spec"] = {"kind": k, "n_columns": draw(st.integers(1, 2))}
    return c


def enum_fitted_all_kinds(tier):
    """One representative configuration of EVERY runnable estimator kind (the fitted-state
    guard of a kind does not depend on the data)."""
    base = {"values": [7.0, 9.5, 6.25, 11.0, 8.0, 12.5, 9.0, 13.25, 10.5, 14.0], "start": 3, "seed": 11}
    for sp in pools.FORECASTER_ENUM:
        yield dict(base, family="forecaster", spec=sp)
    for sp in panelpool.SERIES_TRANSFORMER_ENUM:
        yield dict(base, family="series_transformer", spec=sp)
    for k in panelpool.PANEL_TRANSFORMERS:
        yield dict(base, family="panel_transformer", spec={"kind": k})
    for k in panelpool.CLASSIFIERS + ("tsfr",):
        for nc in ((1, 2) if k == "cec" else (1,)):
            yield dict(base, family="panel_estimator", spec={"kind": k, "n_columns": nc})


def oracle_tuner_flag(case, ctx):
    """Tuners with and without the final refit: fit returns self, sets the fitted flag, keeps the
    constructor parameters; a clone is unfitted (without refit, predict is refused by design)."""
    from sktime.forecasting.model_selection import ForecastingGridSearchCV, ForecastingRandomizedSearchCV, SlidingWindowSplitter
    from sktime.forecasting.naive import NaiveForecaster

    cls = ForecastingGridSearchCV if case["search"] == "grid" else ForecastingRandomizedSearchCV
    base = NaiveForecaster() if case["base"] == "naive" else pools.build_forecaster(
        {"kind": "pipeline", "transformers": [{"kind": "detrend", "degree": 1}], "forecaster": {"kind": "naive", "strategy": "last", "sp": 1}})
    grid = {"strategy": ["last", "mean"]} if case["base"] == "naive" else {"forecaster__strategy": ["last", "mean"]}
    kw = {"param_grid": grid} if case["search"] == "grid" else {"param_distributions": grid, "n_iter": 2, "random_state": case["rs"]}
    t = cls(base, cv=SlidingWindowSplitter(fh=1, window_length=6, step_length=2), refit=case["refit"], **kw)
    y = gen.build_series([5.0 + 0.75 * i + ((i * 7) % 5) / 3.0 for i in range(16)], case["start"], "range")
    ctx.label("refit=%s" % case["refit"])
    ctx.mark_nontrivial(not case["refit"])
    discs = []
    if sut(lambda: t.is_fitted) is not False:
        discs.append(D("new_estimator_is_fitted:%s" % cls.__name__, ""))
    before = _snapshot(t)
    r = sut(t.fit, y.copy(), None, [1, 2])
    if isinstance(r, Raised):
        return discs + [D("valid_fit_rejected:%s:%s@%s" % (cls.__name__, r.type, r.where), r.msg)]
    if r is not t:
        discs.append(D("fit_not_self:%s" % cls.__name__, ""))
    if sut(lambda: t.is_fitted) is not True:
        discs.append(D("is_fitted_false_after_fit:%s" % cls.__name__, "refit=%s" % case["refit"]))
    c = sut(t.check_is_fitted)
    if isinstance(c, Raised):
        discs.append(D("check_is_fitted_raises_after_fit:%s" % cls.__name__, "refit=%s: %r" % (case["refit"], c)))
    ch = _unchanged(before, _snapshot(t))
    if ch:
        discs.append(D("fit_changes_parameter:%s" % cls.__name__, str(ch[:3])))
    cl = sut(clone, t)
    if isinstance(cl, Raised) or sut(lambda: cl.is_fitted) is not False:
        discs.append(D("clone_is_fitted:%s" % cls.__name__, repr(cl)[:100]))
    p = sut(t.predict, [1, 2])
    if case["refit"] and isinstance(p, Raised):
        discs.append(D("fitted_estimator_reports_not_fitted:%s.predict" % cls.__name__, repr(p)))
    if not case["refit"] and not (isinstance(p, Raised) and p.is_a(NotFittedError)):
        discs.append(D("not_fitted_guard:%s.predict" % cls.__name__, "refit=False: predict -> %r" % (p,)))
    return discs


def enum_tuner_flag(tier):
    import itertools

    for search, base, refit, start in itertools.product(["grid", "random"], ["naive", "pipeline"], [True, False], [0, 5]):
        yield {"search": search, "base": base, "refit": refit, "start": start, "rs": 3}


# ------------------------------------------------------------------------------ component names vs constructor arguments
def _named_composites():
    from sklearn.linear_model import LinearRegression

    from sktime.forecasting.compose import EnsembleForecaster, MultiplexForecaster, StackingForecaster, TransformedTargetForecaster
    from sktime.forecasting.naive import NaiveForecaster
    from sktime.forecasting.online_learning import OnlineEnsembleForecaster
    from sktime.forecasting.trend import PolynomialTrendForecaster
    from sktime.transformations.series.boxcox import LogTransformer

    def two(cls, **kw):
        return lambda name: cls([(name, NaiveForecaster()), ("other", PolynomialTrendForecaster())], **kw)

    return {
        "ensemble": (EnsembleForecaster, two(EnsembleForecaster, aggfunc="median")),
        "stack": (StackingForecaster, two(StackingForecaster, final_regressor=LinearRegression())),
        "multiplex": (MultiplexForecaster, two(MultiplexForecaster, selected_forecaster="other")),
        "online_ensemble": (OnlineEnsembleForecaster, two(OnlineEnsembleForecaster)),
        "pipeline": (TransformedTargetForecaster, lambda name: TransformedTargetForecaster([(name, LogTransformer()), ("other", NaiveForecaster())])),
    }


def oracle_component_names(case, ctx):
    """`<name>` in get_params() is either a constructor argument or a component: a composite
    whose component carries the name of ANY of its constructor arguments (with or without a
    default) is refused by fit; with a name that merely resembles one it is fitted, and every
    constructor argument still reads back as given."""
    cls, build = _named_composites()[case["composite"]]
    name = case["name"]
    ctx.mark_nontrivial(True)
    ctx.label(case["composite"])
    y = gen.build_series([7.0, 9.5, 6.25, 11.0, 8.0, 12.5, 9.0, 13.25, 10.5, 14.0, 11.5, 15.0], 3, "range")
    args = [a for a in inspect.signature(cls.__init__).parameters if a != "self"]
    est = sut(build, name)
    if isinstance(est, Raised):
        return [] if name in args and est.is_a(ValueError) else [unexpected(est, "constructing %s with a component named %r" % (cls.__name__, name))]
    r = sut(est.fit, y.copy(), None, [1, 2])
    if name in args:
        ctx.label("name_is_constructor_argument")
        if not (isinstance(r, Raised) and r.is_a(ValueError)):
            return [D("ambiguous_component_name_accepted:%s" % cls.__name__, "component named %r (a constructor argument): fit -> %s" % (
                name, repr(r) if isinstance(r, Raised) else "fitted"))]
        if sut(lambda: est.is_fitted) is not False:
            return [D("is_fitted_after_rejected_fit:%s" % cls.__name__, name)]
        return []
    if isinstance(r, Raised):
        return [D("valid_fit_rejected:%s:%s@%s" % (cls.__name__, r.type, r.where), "component named %r: %s" % (name, r.msg))]
    gp = est.get_params(deep=True)
    discs = []
    for a in args:
        if gp.get(a) is not getattr(est, a):
            discs.append(D("constructor_argument_shadowed:%s" % cls.__name__, "component named %r: get_params()[%r] is %r" % (name, a, gp.get(a))))
    if not isinstance(gp.get(name), BaseEstimator):
        discs.append(D("component_not_reachable_by_name:%s" % cls.__name__, "%r -> %r" % (name, gp.get(name))))
    return discs


def enum_component_names(tier):
    for k, (cls, _) in _named_composites().items():
        args = [a for a in inspect.signature(cls.__init__).parameters if a != "self"]
        for a in args:
            yield {"composite": k, "name": a}
            yield {"composite": k, "name": a + "_"}
            yield {"composite": k, "name": a.upper()}


def subchecks():
    return [
        SubCheck("component_names", oracle_component_names, enumerate_cases=enum_component_names, shards_quick=4, shards_thorough=4, exhaustive=True),
        SubCheck("tuner_fitted_flag", oracle_tuner_flag, enumerate_cases=enum_tuner_flag, shards_quick=4, shards_thorough=4, exhaustive=True),
        SubCheck("fitted_state_every_kind", oracle_fitted_state, enumerate_cases=enum_fitted_all_kinds,
                 shards_quick=16, shards_thorough=16, exhaustive=True),
        SubCheck("constructor_defaults_all_classes", oracle_constructor, enumerate_cases=enum_constructor_defaults,
                 shards_quick=4, shards_thorough=8, exhaustive=True),
        SubCheck("constructor_contract", oracle_constructor, constructor_cases(), quick=1200, thorough=8000,
                 shards_quick=4, shards_thorough=16),
        SubCheck("replace_every_component", oracle_nested, enumerate_cases=enum_replace_components, shards_quick=4, shards_thorough=4, exhaustive=True),
        SubCheck("nested_params", oracle_nested, nested_cases(), quick=600, thorough=6000, shards_quick=4, shards_thorough=16),
        SubCheck("fitted_state", oracle_fitted_state, fitted_cases(), quick=400, thorough=5000, shards_quick=8, shards_thorough=16),
    ]


SELECTORS = {}
