"""C06 - forecasting metrics vs published definitions and laws (DESIGN 2/C06)."""
import numpy as np
import pandas as pd
from hypothesis import strategies as st

from harness.runner import D, Raised, SubCheck, sut, unexpected

PROPERTY_ID = "C06"
LEVEL = "exploration"
RULE = (
    "generated y_true / y_pred / y_train / benchmark (1..3 output columns, length 1..30, "
    "floats in +-1e6 with injected exact zeros, ties, sign changes, constant vectors), "
    "seasonal periods, option combinations, positive horizon weights and multioutput modes, "
    "for all 18 metric functions and 19 classes; oracle = plain-numpy reference formulas "
    "(weighted medians judged by a validity predicate), algebraic laws, and class == function. "
    "non-trivial = a zero in the truth, or a sign change, or non-uniform weights, or "
    "multi-output; distinct = distinct canonical JSON of the case"
)
ASSUMPTIONS = [
    "tolerance rtol 1e-9 (1e-7 for geometric means) between reference and implementation, "
    "which follow different floating-point routes",
    "uniform_average / weighted multioutput is checked where the per-column values are "
    "averaged (not for scaled errors and relative_loss, whose aggregate is a ratio of "
    "averages); raw_values is checked for all",
]

from sktime.performance_metrics import forecasting as M  # noqa: E402

EPS = np.finfo(np.float64).eps

PLAIN = ["mean_absolute_error", "mean_squared_error", "median_absolute_error", "median_squared_error"]
PERC = ["mean_absolute_percentage_error", "median_absolute_percentage_error",
        "mean_squared_percentage_error", "median_squared_percentage_error"]
SCALED = ["mean_absolute_scaled_error", "median_absolute_scaled_error",
          "mean_squared_scaled_error", "median_squared_scaled_error"]
REL = ["mean_relative_absolute_error", "median_relative_absolute_error",
       "geometric_mean_relative_absolute_error", "geometric_mean_relative_squared_error"]
OTHER = ["mean_asymmetric_error", "relative_loss"]
ALL = PLAIN + PERC + SCALED + REL + OTHER
HAS_SQRT = {"mean_squared_error", "median_squared_error", "mean_squared_percentage_error",
            "median_squared_percentage_error", "mean_squared_scaled_error",
            "median_squared_scaled_error", "geometric_mean_relative_squared_error"}
CLASS_OF = {
    "mean_absolute_error": "MeanAbsoluteError", "mean_squared_error": "MeanSquaredError",
    "median_absolute_error": "MedianAbsoluteError", "median_squared_error": "MedianSquaredError",
    "mean_absolute_percentage_error": "MeanAbsolutePercentageError",
    "median_absolute_percentage_error": "MedianAbsolutePercentageError",
    "mean_squared_percentage_error": "MeanSquaredPercentageError",
    "median_squared_percentage_error": "MedianSquaredPercentageError",
    "mean_absolute_scaled_error": "MeanAbsoluteScaledError",
    "median_absolute_scaled_error": "MedianAbsoluteScaledError",
    "mean_squared_scaled_error": "MeanSquaredScaledError",
    "median_squared_scaled_error": "MedianSquaredScaledError",
    "mean_relative_absolute_error": "MeanRelativeAbsoluteError",
    "median_relative_absolute_error": "MedianRelativeAbsoluteError",
    "geometric_mean_relative_absolute_error": "GeometricMeanRelativeAbsoluteError",
    "geometric_mean_relative_squared_error": "GeometricMeanRelativeSquaredError",
    "mean_asymmetric_error": "MeanAsymmetricError", "relative_loss": "RelativeLoss",
}


# ------------------------------------------------------------------ reference formulas
def wmean(e, w):
    if w is None:
        return float(np.sum(e) / len(e))
    w = np.asarray(w, dtype=float)
    return float(np.sum(w * e) / np.sum(w))


def perc_err(t, p, symmetric):
    if symmetric:
        return 2 * np.abs(t - p) / np.maximum(np.abs(t) + np.abs(p), EPS)
    return (t - p) / np.maximum(np.abs(t), EPS)


def rel_err(t, p, b):
    d = t - b
    den = np.where(d >= 0, np.maximum(d, EPS), np.minimum(d, -EPS))
    return (t - p) / den


def elementwise(name, t, p, opts, b=None):
    """Per-time-point errors of one column whose aggregate (mean/median/gmean) is the metric."""
    if name in ("mean_absolute_error", "median_absolute_error"):
        return np.abs(t - p)
    if name in ("mean_squared_error", "median_squared_error"):
        return (t - p) ** 2
    if name in ("mean_absolute_percentage_error", "median_absolute_percentage_error"):
        return np.abs(perc_err(t, p, opts.get("symmetric", True)))
    if name in ("mean_squared_percentage_error", "median_squared_percentage_error"):
        return perc_err(t, p, opts.get("symmetric", True)) ** 2
    if name in ("mean_relative_absolute_error", "median_relative_absolute_error",
                "geometric_mean_relative_absolute_error"):
        return np.abs(rel_err(t, p, b))
    if name == "geometric_mean_relative_squared_error":
        return rel_err(t, p, b) ** 2
    if name == "mean_asymmetric_error":
        fn = {"squared": np.square, "absolute": np.abs}
        d = t - p
        return np.where(d < opts.get("asymmetric_threshold", 0.0),
                        fn[opts.get("left_error_function", "squared")](d),
                        fn[opts.get("right_error_function", "absolute")](d))
    raise KeyError(name)


def agg_kind(name):
    if name.startswith("median"):
        return "median"
    if name.startswith("geometric"):
        return "gmean"
    return "mean"


def ref_column(name, t, p, opts, w, b=None, train=None):
    """Returns ('value', v) or ('median_of', errors, sqrt?) for weighted medians."""
    sq = bool(opts.get("square_root", False)) and name in HAS_SQRT
    if name in SCALED:
        sp = opts.get("sp", 1)
        base = name.replace("_scaled", "")
        naive = ref_column(base, train[sp:], train[:-sp], {}, None)
        pred = ref_column(base, t, p, {}, w)
        if pred[0] == "median_of":
            return ("scaled_median_of", pred[1], max(naive[1], EPS), sq)
        v = pred[1] / max(naive[1], EPS)
        return ("value", float(np.sqrt(v)) if sq else v)
    if name == "relative_loss":
        lf = opts.get("relative_loss_function", "mean_absolute_error")
        a = ref_column(lf, t, p, {}, w)
        c = ref_column(lf, t, b, {}, w)
        if a[0] != "value" or c[0] != "value":
            return ("skip",)
        return ("value", a[1] / max(c[1], EPS))
    e = elementwise(name, t, p, opts, b)
    k = agg_kind(name)
    if k == "mean":
        v = wmean(e, w)
    elif k == "median":
        if w is None:
            v = float(np.median(e))
        else:
            return ("median_of", e, None, sq)
    else:
        e2 = np.where(e == 0.0, EPS, e)
        if w is None:
            v = float(np.exp(np.sum(np.log(e2)) / len(e2)))
        else:
            ww = np.asarray(w, dtype=float)
            v = float(np.exp(np.sum(ww * np.log(e2)) / np.sum(ww)))
    return ("value", float(np.sqrt(v)) if sq else v)


def valid_weighted_median(v, e, w):
    """v is one of the values and at least half of the weight lies on each side."""
    w = np.asarray(w, dtype=float)
    tol = 1e-9 * max(1.0, abs(v))
    if not np.any(np.abs(e - v) <= tol):
        return False
    tot = np.sum(w)
    lo = np.sum(w[e <= v + tol])
    hi = np.sum(w[e >= v - tol])
    return lo >= 0.5 * tot * (1 - 1e-12) and hi >= 0.5 * tot * (1 - 1e-12)


def close(a, b, name):
    rt = 1e-7 if name.startswith("geometric") else 1e-9
    return bool(np.isclose(a, b, rtol=rt, atol=1e-12)) or (np.isnan(a) and np.isnan(b))


# ------------------------------------------------------------------ building inputs
def build(case):
    t = np.array(case["y_true"], dtype=float)
    p = np.array(case["y_pred"], dtype=float)
    b = np.array(case["y_bench"], dtype=float)
    tr = np.array(case["y_train"], dtype=float)
    if t.shape[1] == 1 and case["squeeze"]:
        t, p, b, tr = t[:, 0], p[:, 0], b[:, 0], tr[:, 0]
    return t, p, b, tr


def wrap(case, t, p, b, tr):
    """Container variant: numpy, or pandas with y_train indexed before y_true."""
    if case["container"] == "numpy":
        return t, p, b, tr
    n, m = len(t), len(tr)
    i_tr = pd.RangeIndex(0, m)
    i_t = pd.RangeIndex(m, m + n)
    if t.ndim == 1:
        return (pd.Series(t, index=i_t), pd.Series(p, index=i_t), pd.Series(b, index=i_t),
                pd.Series(tr, index=i_tr))
    return (pd.DataFrame(t, index=i_t), pd.DataFrame(p, index=i_t), pd.DataFrame(b, index=i_t),
            pd.DataFrame(tr, index=i_tr))


def call_args(name, case, opts, T, P, B, TR, with_w=True, multioutput=None):
    kw = {}
    for k in ("symmetric", "square_root", "sp", "asymmetric_threshold", "left_error_function",
              "right_error_function"):
        if k in opts:
            kw[k] = opts[k]
    if "relative_loss_function" in opts:
        kw["relative_loss_function"] = getattr(M, opts["relative_loss_function"])
    if with_w and case.get("weights") is not None:
        kw["horizon_weight"] = np.array(case["weights"], dtype=float)
    if multioutput is not None:
        kw["multioutput"] = multioutput
    args = [T, P]
    if name in SCALED:
        args.append(TR)
    if name in REL or name == "relative_loss":
        args.append(B)
    return args, kw


def opts_for(name, case):
    o = {}
    if name in PERC:
        o["symmetric"] = case["symmetric"]
    if name in HAS_SQRT:
        o["square_root"] = case["square_root"]
    if name in SCALED:
        o["sp"] = case["sp"]
    if name == "mean_asymmetric_error":
        o["asymmetric_threshold"] = case["thr"]
        o["left_error_function"] = case["left"]
        o["right_error_function"] = case["right"]
    if name == "relative_loss":
        o["relative_loss_function"] = case["rlf"]
    return o


def nontrivial(case, t, p):
    w = case.get("weights")
    return bool(
        np.any(t == 0)
        or (np.any(t > 0) and np.any(t < 0))
        or (w is not None and len(set(w)) > 1)
        or (t.ndim == 2 and t.shape[1] > 1)
    )


# ------------------------------------------------------------------ oracles
def oracle_formula(case, ctx):
    discs = []
    t, p, b, tr = build(case)
    T, P, B, TR = wrap(case, t, p, b, tr)
    t2 = t.reshape(len(t), -1)
    p2, b2, tr2 = p.reshape(len(p), -1), b.reshape(len(b), -1), tr.reshape(len(tr), -1)
    ncol = t2.shape[1]
    w = case.get("weights")
    ctx.mark_nontrivial(nontrivial(case, t, p))
    ctx.label("cols=%d" % ncol)
    ctx.label("weighted" if w is not None else "unweighted")
    for name in case["metrics"]:
        fn = getattr(M, name)
        opts = opts_for(name, case)
        args, kw = call_args(name, case, opts, T, P, B, TR, multioutput="raw_values")
        r = sut(fn, *args, **kw)
        if isinstance(r, Raised):
            discs.append(D("metric_raised:%s:%s" % (name, r.type), "%s(%s): %s" % (name, kw, r.msg)))
            continue
        got = np.atleast_1d(np.asarray(r, dtype=float))
        if got.shape != (ncol,):
            discs.append(D("raw_values_shape:%s" % name, "shape %s for %d columns" % (got.shape, ncol)))
            continue
        col_vals = []
        for j in range(ncol):
            ref = ref_column(name, t2[:, j], p2[:, j], opts, w, b2[:, j], tr2[:, j])
            if ref[0] == "skip":
                col_vals.append(None)
                continue
            if ref[0] == "value":
                col_vals.append(ref[1])
                if not close(got[j], ref[1], name):
                    discs.append(D("formula:%s" % name, "col %d opts=%s w=%s got %r expected %r"
                                   % (j, opts, w is not None, float(got[j]), ref[1])))
            else:
                # weighted median: validity predicate
                col_vals.append(None)
                if ref[0] == "median_of":
                    e, _, sq = ref[1], ref[2], ref[3]
                    v = got[j] ** 2 if sq else got[j]
                else:
                    e, den, sq = ref[1], ref[2], ref[3]
                    v = (got[j] ** 2 if sq else got[j]) * den
                if not valid_weighted_median(float(v), np.asarray(e, dtype=float), w):
                    discs.append(D("weighted_median_invalid:%s" % name,
                                   "col %d opts=%s value %r not a weighted median of %s (w=%s)"
                                   % (j, opts, float(v), np.asarray(e).tolist(), w)))
        # aggregated forms where the aggregate is an average of the per-column values
        if name not in SCALED and name != "relative_loss" and ncol > 1 and all(v is not None for v in col_vals):
            for mo, exp in (("uniform_average", float(np.mean(col_vals))),
                            (case["mo_weights"][:ncol], float(np.average(col_vals, weights=case["mo_weights"][:ncol])))):
                args, kw = call_args(name, case, opts, T, P, B, TR, multioutput=mo)
                r2 = sut(fn, *args, **kw)
                if isinstance(r2, Raised):
                    discs.append(D("metric_raised:%s:%s" % (name, r2.type), "multioutput=%s: %s" % (mo, r2.msg)))
                elif not close(float(r2), exp, name):
                    discs.append(D("multioutput:%s" % name, "multioutput=%s got %r expected %r" % (mo, float(r2), exp)))
        elif ncol == 1 and col_vals[0] is not None:
            args, kw = call_args(name, case, opts, T, P, B, TR)
            r2 = sut(fn, *args, **kw)
            if isinstance(r2, Raised):
                discs.append(D("metric_raised:%s:%s" % (name, r2.type), "default multioutput: %s" % r2.msg))
            elif np.ndim(r2) != 0 or not close(float(r2), col_vals[0], name):
                discs.append(D("formula:%s" % name, "default multioutput got %r expected %r" % (r2, col_vals[0])))
    return discs


def oracle_laws(case, ctx):
    discs = []
    t, p, b, tr = build(case)
    T, P, B, TR = wrap(case, t, p, b, tr)
    w = case.get("weights")
    ctx.mark_nontrivial(nontrivial(case, t, p))
    for name in case["metrics"]:
        fn = getattr(M, name)
        opts = opts_for(name, case)
        args, kw = call_args(name, case, opts, T, P, B, TR, multioutput="raw_values")
        r = sut(fn, *args, **kw)
        if isinstance(r, Raised):
            discs.append(D("metric_raised:%s:%s" % (name, r.type), r.msg))
            continue
        v = np.atleast_1d(np.asarray(r, dtype=float))
        if np.any(v < 0) or np.any(np.isnan(v)):
            discs.append(D("negative_or_nan_loss:%s" % name, "opts=%s -> %s" % (opts, v.tolist())))
        # perfect forecast
        a2 = list(args)
        a2[1] = a2[0]
        r0 = sut(fn, *a2, **kw)
        if isinstance(r0, Raised):
            discs.append(D("metric_raised:%s:%s" % (name, r0.type), "perfect forecast: %s" % r0.msg))
        else:
            v0 = np.atleast_1d(np.asarray(r0, dtype=float))
            if name.startswith("geometric"):
                floor = EPS
                if opts.get("square_root") and name in HAS_SQRT:
                    floor = np.sqrt(EPS)
                okp = np.allclose(v0, floor, rtol=1e-9, atol=0)
            else:
                okp = np.all(v0 == 0)
            if not okp:
                discs.append(D("perfect_forecast_nonzero:%s" % name, "opts=%s -> %s" % (opts, v0.tolist())))
        if name in PERC and opts.get("symmetric", True):
            a3 = [args[1], args[0]]
            rs = sut(fn, *a3, **kw)
            if isinstance(rs, Raised):
                discs.append(D("metric_raised:%s:%s" % (name, rs.type), "swapped: %s" % rs.msg))
            else:
                vs = np.atleast_1d(np.asarray(rs, dtype=float))
                if not np.allclose(vs, v, rtol=1e-12, atol=0):
                    discs.append(D("symmetric_not_swap_invariant:%s" % name, "%s vs %s" % (v.tolist(), vs.tolist())))
            hi = 4.0 if (name.endswith("squared_percentage_error") and not opts.get("square_root")) else 2.0
            if np.any(v > hi * (1 + 1e-12)):
                discs.append(D("symmetric_out_of_range:%s" % name, "%s > %s" % (v.tolist(), hi)))
        if name in SCALED:
            # scale invariance (only where no eps clamp is active)
            sp = opts["sp"]
            tr2 = tr.reshape(len(tr), -1)
            base = np.abs(tr2[sp:] - tr2[:-sp])
            agg = np.median(base, axis=0) if name.startswith("median") else np.mean(base, axis=0)
            c = case["scale"]
            if np.all(agg * min(c, 1.0) ** 2 > 1e-6) and np.all(np.isfinite(v)):
                Tc, Pc, Bc, TRc = wrap(case, t * c, p * c, b * c, tr * c)
                ac, kwc = call_args(name, case, opts, Tc, Pc, Bc, TRc, multioutput="raw_values")
                rc = sut(fn, *ac, **kwc)
                if isinstance(rc, Raised):
                    discs.append(D("metric_raised:%s:%s" % (name, rc.type), "scaled: %s" % rc.msg))
                else:
                    vc = np.atleast_1d(np.asarray(rc, dtype=float))
                    if not np.allclose(vc, v, rtol=1e-9, atol=1e-12):
                        discs.append(D("not_scale_invariant:%s" % name, "c=%s %s vs %s" % (c, v.tolist(), vc.tolist())))
                ctx.count("scale_law_checked")
            else:
                ctx.count("scale_law_skipped_eps_clamp")
    return discs


def oracle_classes(case, ctx):
    """Class(**opts)(y_true, y_pred, <data>) is bit-identical to function(..., **opts)."""
    discs = []
    t, p, b, tr = build(case)
    T, P, B, TR = wrap(case, t, p, b, tr)
    ctx.mark_nontrivial(nontrivial(case, t, p))
    for name in case["metrics"]:
        fn = getattr(M, name)
        cls = getattr(M, CLASS_OF[name])
        opts = opts_for(name, case)
        copts = dict(opts)
        if "relative_loss_function" in copts:
            copts["relative_loss_function"] = getattr(M, copts["relative_loss_function"])
        obj = sut(cls, **copts)
        if isinstance(obj, Raised):
            discs.append(D("class_ctor_raised:%s" % CLASS_OF[name], obj.msg))
            continue
        if copts and case.get("opts_via_set_params"):
            # a metric object is configured like any estimator: options set on an existing
            # (default-constructed, or cloned) object count exactly like constructor arguments
            from sklearn.base import clone as _clone

            base = sut(cls)
            if not isinstance(base, Raised):
                if case["opts_via_set_params"] == 2:
                    base = _clone(base)
                obj2 = sut(base.set_params, **copts)
                if isinstance(obj2, Raised):
                    discs.append(D("class_set_params_raised:%s:%s" % (CLASS_OF[name], obj2.type), "opts=%s: %s" % (opts, obj2.msg)))
                    continue
                obj = obj2
                ctx.label("options_via_set_params")
        gp = sut(obj.get_params)
        if isinstance(gp, Raised):
            discs.append(unexpected(gp, "get_params"))
        else:
            for k, v in copts.items():
                if k not in gp or gp[k] is not v and gp[k] != v:
                    discs.append(D("class_params:%s" % CLASS_OF[name], "passed %s=%r, get_params has %r" % (k, v, gp.get(k, "<missing>"))))
        args, kw = call_args(name, case, opts, T, P, B, TR, with_w=False)
        want = sut(fn, *args, **kw)
        extra = {}
        if name in SCALED:
            extra["y_train"] = TR
        if name in REL or name == "relative_loss":
            extra["y_pred_benchmark"] = B
        got = sut(obj, T, P, **extra)
        if isinstance(want, Raised):
            continue
        if isinstance(got, Raised):
            discs.append(D("class_call_raised:%s:%s" % (CLASS_OF[name], got.type), "opts=%s: %s" % (opts, got.msg)))
            continue
        if not np.array_equal(np.asarray(got, dtype=float), np.asarray(want, dtype=float), equal_nan=True):
            discs.append(D("class_differs_from_function:%s" % CLASS_OF[name], "opts=%s class %r function %r" % (opts, got, want)))
        if getattr(obj, "greater_is_better", None) is not False:
            discs.append(D("loss_direction:%s" % CLASS_OF[name], "greater_is_better=%r" % getattr(obj, "greater_is_better", None)))
    # a scorer made from a user function returns what the function returns, in either direction
    def _user(y_true, y_pred):
        return float(np.sum(np.asarray(y_pred, dtype=float)) - 2.0 * np.sum(np.asarray(y_true, dtype=float)))

    for gib in (False, True):
        sc = sut(M.make_forecasting_scorer, _user, name="user", greater_is_better=gib)
        if isinstance(sc, Raised):
            discs.append(D("make_scorer_raised:%s" % sc.type, sc.msg))
            continue
        got = sut(sc, T, P)
        if isinstance(got, Raised) or not np.isclose(float(got), _user(t, p), rtol=1e-12, atol=0.0):
            discs.append(D("scorer_differs_from_function:greater_is_better=%s" % gib, "scorer %r function %r" % (got, _user(t, p))))
        if getattr(sc, "greater_is_better", None) is not gib:
            discs.append(D("scorer_direction", "declared %r, attribute %r" % (gib, getattr(sc, "greater_is_better", None))))
    return discs


# ------------------------------------------------------------------ strategies
def _val():
    return st.one_of(
        st.floats(-1e6, 1e6, allow_nan=False, allow_infinity=False).map(lambda v: round(v, 3)),
        st.floats(-10, 10, allow_nan=False).map(lambda v: round(v, 2)),
        st.sampled_from([0.0, 0.0, 1.0, -1.0, 100.0]),
    )


@st.composite
def cases(draw, which):
    n = draw(st.integers(1, 30))
    k = draw(st.sampled_from([1, 1, 2, 3]))
    sp = draw(st.integers(1, 6))
    m = draw(st.integers(sp + 1, sp + 20))
    const = draw(st.integers(0, 9)) == 0

    def mat(rows):
        if const:
            v = draw(_val())
            return [[v] * k for _ in range(rows)]
        return [[draw(_val()) for _ in range(k)] for _ in range(rows)]

    yt = mat(n)
    yp = mat(n)
    # ties: copy some truth entries into the forecast
    for i in range(n):
        if draw(st.integers(0, 5)) == 0:
            yp[i] = list(yt[i])
    yb = mat(n)
    # ties with the benchmark, and errors exactly equal to the asymmetric threshold
    thr = draw(st.sampled_from([0.0, 0.0, 1.5, -2.0, 100.0]))
    for i in range(n):
        r = draw(st.integers(0, 7))
        if r == 0:
            yb[i] = list(yt[i])
        elif r == 1:
            yt[i] = [float(int(v)) for v in yt[i]]
            yp[i] = [v - thr for v in yt[i]]  # exact: integer-valued truth, dyadic threshold
    ytr = mat(m)
    weights = None
    if draw(st.booleans()):
        weights = [draw(st.sampled_from([0.5, 1.0, 2.0, 3.0, 0.25, 7.0])) for _ in range(n)]
    names = draw(st.lists(st.sampled_from(which), min_size=1, max_size=4, unique=True))
    return {
        "y_true": yt, "y_pred": yp, "y_bench": yb, "y_train": ytr, "sp": sp,
        "squeeze": draw(st.booleans()), "container": draw(st.sampled_from(["numpy", "pandas"])),
        "weights": weights, "metrics": names, "opts_via_set_params": draw(st.sampled_from([0, 0, 1, 2])),
        "symmetric": draw(st.booleans()), "square_root": draw(st.booleans()),
        "thr": thr,
        "left": draw(st.sampled_from(["squared", "absolute"])),
        "right": draw(st.sampled_from(["squared", "absolute"])),
        "rlf": draw(st.sampled_from(["mean_absolute_error", "mean_squared_error", "mean_asymmetric_error", "mean_asymmetric_error"])),
        "mo_weights": [draw(st.sampled_from([0.2, 1.0, 3.0])) for _ in range(3)],
        "scale": draw(st.sampled_from([0.5, 2.0, 3.0, 10.0, 0.125])),
    }


def subchecks():
    return [
        SubCheck("formula_plain_percentage", oracle_formula, cases(PLAIN + PERC), quick=1000, thorough=40000,
                 shards_quick=3, shards_thorough=8),
        SubCheck("formula_scaled_relative", oracle_formula, cases(SCALED + REL + OTHER), quick=1000, thorough=40000,
                 shards_quick=3, shards_thorough=8),
        SubCheck("laws", oracle_laws, cases(ALL), quick=1000, thorough=40000, shards_quick=3, shards_thorough=8),
        SubCheck("class_equals_function", oracle_classes, cases(ALL), quick=1000, thorough=40000,
                 shards_quick=3, shards_thorough=8),
    ]


SELECTORS = {}
