"""C09 - composite forecasters mean the composition of their parts (DESIGN 2/C09)."""
import numpy as np
import pandas as pd
from hypothesis import strategies as st

from harness import doubles, gen, pools
from harness.runner import D, Raised, SubCheck, sut, unexpected

PROPERTY_ID = "C09"
LEVEL = "exploration"
RULE = (
    "generated compositions (ensembles incl. the online ensemble, transformed-target "
    "pipelines (incl. a skip-inverse cleaning step at any position), multiplexers, stacking; members plain or themselves composite), series, "
    "relative/absolute horizons and 0..2 updates; oracle = manual composition of "
    "independently built parts, and recording final steps / members / meta-regressors whose "
    "call logs are compared with the manual transform chain and the hold-out arithmetic. "
    "non-trivial = with an update, or nesting depth 2, or an absolute/gapped horizon; "
    "distinct = distinct JSON of the case"
)
ASSUMPTIONS = [
    "manual composition and composite perform the same floating-point operations; compared "
    "with rtol 1e-10, nan == nan (Box-Cox inverse outside its image)",
]

from sktime.forecasting.base import ForecastingHorizon  # noqa: E402


def data(case):
    n = case["n"]
    total = n + sum(case["updates"])
    vals = [v + ((i * 37) % 11) / 7.0 for i, v in enumerate(case["values"][:total])]
    y = gen.build_series(vals, case["start"], case["index_kind"])
    batches = []
    pos = n
    for k in case["updates"]:
        batches.append(y.iloc[pos: pos + k])
        pos += k
    return y.iloc[:n], batches


def fh_obj(case, cutoff):
    if case["fh_mode"] == "abs":
        return ForecastingHorizon([int(cutoff) + h for h in case["fh"]], is_relative=False)
    return gen.build_fh(case["fh"], case.get("fh_kind", "list"))


def same(a, b, what, spec_desc, tol=1e-10):
    if isinstance(b, Raised):
        if isinstance(a, Raised):
            return []
        return [D("composite_succeeds_where_parts_fail:%s" % what, "%s: parts raised %r" % (spec_desc, b))]
    if isinstance(a, Raised):
        return [D("composite_raised:%s:%s@%s" % (what, a.type, a.where), "%s: %s" % (spec_desc, a.msg))]
    if not isinstance(a, pd.Series):
        return [D("composite_type:%s" % what, type(a).__name__)]
    if [int(i) for i in a.index] != [int(i) for i in b.index]:
        return [D("index_differs:%s" % what, "%s: %s vs %s" % (spec_desc, list(a.index), list(b.index)))]
    if not np.allclose(a.to_numpy(dtype=float), np.asarray(b, dtype=float), rtol=tol, atol=1e-12, equal_nan=True):
        return [D("values_differ:%s" % what, "%s: composite %s parts %s" % (spec_desc, a.tolist(), np.asarray(b, dtype=float).tolist()))]
    return []


def mark(case, ctx, spec):
    gapped = case["fh"] != list(range(1, len(case["fh"]) + 1))
    depth2 = any(pools.is_composite(m) for m in spec.get("members", [])) or (
        spec["kind"] == "pipeline" and pools.is_composite(spec["forecaster"]))
    ctx.mark_nontrivial(bool(case["updates"]) or depth2 or gapped or case["fh_mode"] == "abs")
    ctx.label(spec["kind"])
    if depth2:
        ctx.label("depth2")
    if case["updates"]:
        ctx.label("with_updates")
    if case["fh_mode"] == "abs":
        ctx.label("abs_fh")


# ------------------------------------------------------------------ ensembles
AGG = {"mean": np.mean, "median": np.median, "min": np.min, "max": np.max}


def oracle_ensemble(case, ctx):
    spec = case["spec"]
    mark(case, ctx, spec)
    y0, batches = data(case)
    desc = pools.describe(spec)
    up = case["update_params"]

    def parts():
        ms = [pools.build_forecaster(m) for m in spec["members"]]
        outs = []
        cutoff = y0.index[-1]
        for m in ms:
            m.fit(y0.copy(), None, fh_obj(case, cutoff))
        outs.append([m.predict() for m in ms])
        for b in batches:
            cutoff = b.index[-1]
            for m in ms:
                m.update(b.copy(), update_params=up)
            outs.append([m.predict(fh_obj(case, cutoff) if case["fh_mode"] == "abs" else None) for m in ms])
        res = []
        for stage, preds in enumerate(outs):
            M = np.column_stack([p.to_numpy(dtype=float) for p in preds])
            if spec["kind"] == "online_ensemble":
                # the weighted sum of the members' forecasts, with the weights the ensemble
                # algorithm holds at that point (uniform 1/n without an algorithm)
                w = learned[stage] if stage < len(learned) and learned[stage] is not None else np.ones(M.shape[1]) / M.shape[1]
                v = (M * np.asarray(w, dtype=float)).sum(axis=1)
            else:
                v = AGG[spec.get("aggfunc", "mean")](M, axis=1)
            res.append(pd.Series(v, index=preds[0].index))
        return res

    learned = []

    def weights_now():
        alg = getattr(f, "ensemble_algorithm", None)
        return None if alg is None else np.array(alg.weights, dtype=float).copy()

    f = pools.build_forecaster(spec)
    if spec.get("algorithm"):
        ctx.label("online_algorithm:%s" % spec["algorithm"])
    discs = []
    cutoff = y0.index[-1]
    r = sut(f.fit, y0.copy(), None, fh_obj(case, cutoff))
    if isinstance(r, Raised):
        exp = sut(parts)
        if isinstance(exp, Raised):
            ctx.mark_rejected()
            return []
        return [D("composite_raised:fit:%s@%s" % (r.type, r.where), "%s: %s" % (desc, r.msg))]
    learned.append(weights_now())
    got = [sut(f.predict)]
    for b in batches:
        cutoff = b.index[-1]
        u = sut(f.update, b.copy(), update_params=up)
        if isinstance(u, Raised):
            got.append(u)
            break
        learned.append(weights_now())
        got.append(sut(f.predict, fh_obj(case, cutoff) if case["fh_mode"] == "abs" else None))
    exp = sut(parts)
    if isinstance(exp, Raised):
        if not all(isinstance(g, Raised) for g in got[-1:]):
            return [D("composite_succeeds_where_parts_fail:ensemble", "%s: parts raised %r" % (desc, exp))]
        ctx.mark_rejected()
        return []
    for i, (a, b) in enumerate(zip(got, exp)):
        discs += same(a, b, "ensemble_%s" % ("fit" if i == 0 else "update"), desc)
    return discs


# ------------------------------------------------------------------ pipelines
def _has_tag(t, tag):
    from sktime.utils import _has_tag as ht

    return ht(t, tag)


def manual_chain(spec, y0, batches, case, record=None):
    """Fit/update a transformer chain and a final forecaster by hand.  Returns forecasts."""
    up = case["update_params"]
    ts = [pools.build_transformer(t) for t in spec["transformers"]]
    fc = pools.build_forecaster(spec["forecaster"])
    yt = y0.copy()
    for t in ts:
        yt = t.fit(yt).transform(yt)
    if record is not None:
        record.append(("fit", yt.copy()))
    cutoff = y0.index[-1]
    fc.fit(yt, None, fh_obj(case, cutoff))

    def pred(fh):
        p = fc.predict(fh)
        for t in reversed(ts):
            if not _has_tag(t, "skip-inverse-transform"):
                p = t.inverse_transform(p)
        return p

    outs = [pred(None)]
    for b in batches:
        bt = b.copy()
        for t in ts:
            if hasattr(t, "update"):
                t.update(bt, update_params=up)
            bt = t.transform(bt)
        if record is not None:
            record.append(("update", bt.copy()))
        fc.update(bt, update_params=up)
        outs.append(pred(fh_obj(case, b.index[-1]) if case["fh_mode"] == "abs" else None))
    return outs


def oracle_pipeline(case, ctx):
    spec = case["spec"]
    mark(case, ctx, spec)
    for t in spec["transformers"]:
        ctx.label("t:" + t["kind"])
    y0, batches = data(case)
    desc = pools.describe(spec)
    up = case["update_params"]
    exp = sut(manual_chain, spec, y0, batches, case)
    f = pools.build_forecaster(spec)
    cutoff = y0.index[-1]
    r = sut(f.fit, y0.copy(), None, fh_obj(case, cutoff))
    if isinstance(r, Raised):
        if isinstance(exp, Raised):
            ctx.mark_rejected()
            return []
        return [D("composite_raised:fit:%s@%s" % (r.type, r.where), "%s: %s" % (desc, r.msg))]
    got = [sut(f.predict)]
    for b in batches:
        u = sut(f.update, b.copy(), update_params=up)
        if isinstance(u, Raised):
            got.append(u)
            break
        got.append(sut(f.predict, fh_obj(case, b.index[-1]) if case["fh_mode"] == "abs" else None))
    if isinstance(exp, Raised):
        if not isinstance(got[-1], Raised):
            return [D("composite_succeeds_where_parts_fail:pipeline", "%s: manual chain raised %r" % (desc, exp))]
        ctx.mark_rejected()
        return []
    discs = []
    for i, (a, b) in enumerate(zip(got, exp)):
        discs += same(a, b, "pipeline_%s" % ("fit" if i == 0 else "update"), desc)
    # used as a transformer: transform / inverse_transform chain
    if not discs:
        ts = [pools.build_transformer(t) for t in spec["transformers"]]
        zt = y0.copy()
        for t in ts:
            zt = t.fit(zt).transform(zt)
        f2 = pools.build_forecaster(spec)
        f2.fit(y0.copy(), None, fh_obj(case, cutoff))
        discs += same(sut(f2.transform, y0.copy()), zt, "pipeline_transform", desc)
    if not discs and case.get("shared_steps"):
        # two pipelines made from the same list of steps (one configuration, two series): each
        # fits its own copies, so fitting the second leaves the first one's forecasts alone
        from sktime.forecasting.compose import TransformedTargetForecaster

        ctx.label("steps_list_shared_by_two_pipelines")
        steps = list(pools.build_forecaster(spec).steps)
        A = TransformedTargetForecaster(steps)
        ra = sut(A.fit, y0.copy(), None, fh_obj(case, cutoff))
        pa = sut(A.predict) if not isinstance(ra, Raised) else ra
        if not isinstance(pa, Raised):
            B = TransformedTargetForecaster(steps)
            y1 = pd.Series(y0.to_numpy()[::-1] * 1.5 + 2.0, index=y0.index)
            sut(B.fit, y1, None, fh_obj(case, cutoff))
            discs += same(sut(A.predict), pa, "pipeline_predict_after_other_pipeline_was_fitted", desc)
    return discs


def oracle_inner_representation(case, ctx):
    """The final step is a recording forecaster: what it is fitted / updated with."""
    spec = dict(case["spec"])
    spec["forecaster"] = {"kind": "recording", "tag": 5}
    mark(case, ctx, spec)
    y0, batches = data(case)
    desc = pools.describe(spec)
    rec = []
    doubles.LOG.clear()
    exp = sut(manual_chain, spec, y0, batches, case, rec)
    if isinstance(exp, Raised):
        ctx.mark_rejected()
        return []
    doubles.LOG.clear()
    f = pools.build_forecaster(spec)
    r = sut(f.fit, y0.copy(), None, fh_obj(case, y0.index[-1]))
    if isinstance(r, Raised):
        return [D("composite_raised:fit:%s@%s" % (r.type, r.where), "%s: %s" % (desc, r.msg))]
    for b in batches:
        u = sut(f.update, b.copy(), update_params=case["update_params"])
        if isinstance(u, Raised):
            return [D("composite_raised:update:%s@%s" % (u.type, u.where), "%s: %s" % (desc, u.msg))]
    seen = [(e[0], e[2]) for e in doubles.LOG if e[0] in ("fit", "update") and e[1] == 5]
    discs = []
    if [k for k, _ in seen] != [k for k, _ in rec]:
        return [D("final_step_calls", "%s: final step saw %s expected %s" % (desc, [k for k, _ in seen], [k for k, _ in rec]))]
    for i, ((k, a), (_, b)) in enumerate(zip(seen, rec)):
        if list(a.index) != list(b.index) or not np.allclose(a.to_numpy(dtype=float), b.to_numpy(dtype=float), rtol=1e-10, atol=1e-12, equal_nan=True):
            discs.append(D("final_step_not_in_transformed_representation:%s" % k,
                           "%s call %d: final forecaster received %s expected transformed %s"
                           % (desc, i, a.to_numpy()[:4].tolist(), b.to_numpy()[:4].tolist())))
    return discs


# ------------------------------------------------------------------ multiplexer
def oracle_multiplex(case, ctx):
    spec = case["spec"]
    mark(case, ctx, spec)
    y0, batches = data(case)
    desc = pools.describe(spec)
    sel = spec["members"][spec["selected"] % len(spec["members"])]

    def run(f):
        out = []
        f.fit(y0.copy(), None, fh_obj(case, y0.index[-1]))
        out.append(f.predict())
        for b in batches:
            f.update(b.copy(), update_params=case["update_params"])
            out.append(f.predict(fh_obj(case, b.index[-1]) if case["fh_mode"] == "abs" else None))
        return out

    exp = sut(run, pools.build_forecaster(sel))
    got = sut(run, pools.build_forecaster(spec))
    if isinstance(exp, Raised):
        if not isinstance(got, Raised):
            return [D("composite_succeeds_where_parts_fail:multiplex", "%s: member raised %r" % (desc, exp))]
        ctx.mark_rejected()
        return []
    if isinstance(got, Raised):
        return [D("composite_raised:multiplex:%s@%s" % (got.type, got.where), "%s: %s" % (desc, got.msg))]
    discs = []
    for a, b in zip(got, exp):
        discs += same(a, b, "multiplex", desc)
    # "exactly like its selected member" includes the optional outputs: prediction intervals at
    # the requested coverage (or the member's refusal to give any)
    if not discs:
        fm, fs = pools.build_forecaster(spec), pools.build_forecaster(sel)
        fm.fit(y0.copy(), None, fh_obj(case, y0.index[-1]))
        fs.fit(y0.copy(), None, fh_obj(case, y0.index[-1]))
        for alpha in (0.05, 0.2, 0.5):
            a = sut(lambda: fm.predict(None, None, True, alpha))
            b = sut(lambda: fs.predict(None, None, True, alpha))
            if isinstance(b, Raised):
                if not isinstance(a, Raised):
                    discs.append(D("composite_succeeds_where_parts_fail:multiplex_pred_int", "%s alpha=%s: member raised %r" % (desc, alpha, b)))
                continue
            ctx.label("prediction_intervals")
            if isinstance(a, Raised):
                discs.append(D("composite_raised:multiplex_pred_int:%s@%s" % (a.type, a.where), "%s alpha=%s: %s" % (desc, alpha, a.msg)))
                continue
            ok = (isinstance(a, tuple) and isinstance(b, tuple) and len(a) == len(b) == 2 and not same(a[0], b[0], "multiplex_pred_int", desc)
                  and np.asarray(a[1], dtype=float).shape == np.asarray(b[1], dtype=float).shape
                  and np.allclose(np.asarray(a[1], dtype=float), np.asarray(b[1], dtype=float), rtol=1e-9, atol=1e-9, equal_nan=True))
            if not ok:
                discs.append(D("values_differ:multiplex_pred_int", "%s alpha=%s: composite %s member %s"
                               % (desc, alpha, np.asarray(a[1] if isinstance(a, tuple) else a, dtype=float).ravel()[:4].tolist(),
                                  np.asarray(b[1], dtype=float).ravel()[:4].tolist())))
    # re-selection on the SAME instance: set_params(selected_forecaster=...) then fit again
    if not discs and len(spec["members"]) > 1:
        other = (spec["selected"] + 1) % len(spec["members"])
        f = pools.build_forecaster(spec)
        r = sut(f.fit, y0.copy(), None, fh_obj(case, y0.index[-1]))
        if not isinstance(r, Raised):
            f.set_params(selected_forecaster="f" + "_x" * other)
            a = sut(lambda: f.fit(y0.copy(), None, fh_obj(case, y0.index[-1])).predict())
            b = sut(lambda: pools.build_forecaster(spec["members"][other]).fit(y0.copy(), None, fh_obj(case, y0.index[-1])).predict())
            discs += same(a, b, "multiplex_reselected", desc)
    return discs


# ------------------------------------------------------------------ stacking
def oracle_stacking(case, ctx):
    """Recording members and a recording meta-regressor."""
    from sktime.forecasting.compose import StackingForecaster

    k = case["n_members"]
    RF = doubles.recording_forecaster_class()
    members = [("m%d" % i, RF(tag=10 + i, bias=0.1 * (i + 1))) for i in range(k)]
    meta = doubles.RecordingRegressor(tag=99)
    y0, batches = data(case)
    steps = case["fh"]
    hmax = steps[-1]
    n = len(y0)
    ctx.label("members=%d" % k)
    ctx.mark_nontrivial(True)
    if case["fh_mode"] == "abs":
        ctx.label("abs_fh")
    if batches:
        ctx.label("with_updates")
    doubles.LOG.clear()
    f = StackingForecaster(members, final_regressor=meta)
    cutoff = int(y0.index[-1])
    r = sut(f.fit, y0.copy(), None, fh_obj(case, cutoff))
    if isinstance(r, Raised):
        return [D("composite_raised:fit:%s@%s" % (r.type, r.where), "stacking fh=%s n=%d: %s" % (steps, n, r.msg))]
    discs = []
    log = list(doubles.LOG)
    fits = {t: [e for e in log if e[0] == "fit" and e[1] == t] for t in range(10, 10 + k)}
    hold_cut = n - 1 - hmax  # position of the end of the shortened training window
    hold_labels = [int(y0.index[hold_cut + h]) for h in steps]
    for t, fl in fits.items():
        if len(fl) != 2:
            discs.append(D("stacking_member_fits", "member %d fitted %d times, expected 2" % (t, len(fl))))
            continue
        first, second = fl
        if [int(i) for i in first[2].index] != [int(i) for i in y0.index[: hold_cut + 1]]:
            discs.append(D("stacking_member_saw_holdout", "member %d first fit on labels ..%s, hold-out window %s"
                           % (t, int(first[2].index[-1]), hold_labels)))
        if [int(i) for i in second[2].index] != [int(i) for i in y0.index]:
            discs.append(D("stacking_refit_not_on_all_data", "member %d second fit ends at %s" % (t, int(second[2].index[-1]))))
    if discs:
        return discs
    # member predictions between first and second fit must be for the hold-out labels
    mfit = [e for e in log if e[0] == "fit" and e[1] == 99]
    if len(mfit) != 1:
        return [D("stacking_meta_fits", "meta-regressor fitted %d times" % len(mfit))]
    idx_meta = log.index(mfit[0])
    preds = [e for e in log[:idx_meta] if e[0] == "predict"]
    if len(preds) != k:
        return [D("stacking_member_predicts", "%d member predictions before the meta fit, expected %d" % (len(preds), k))]
    for e in preds:
        got_labels = [int(e[2]) + s for s in e[3]]
        if got_labels != hold_labels:
            discs.append(D("stacking_meta_features_wrong_time_points",
                           "member %d forecast labels %s, hold-out window %s" % (e[1], got_labels, hold_labels)))
    if discs:
        return discs
    # expected meta features: recompute the members' forecasts on the prefix
    cols = []
    for i in range(k):
        m = RF(tag=200 + i, bias=0.1 * (i + 1))
        m.fit(y0.iloc[: hold_cut + 1].copy(), None, gen.build_fh(steps, "list"))
        cols.append(m.predict().to_numpy(dtype=float))
    Xexp = np.column_stack(cols)
    yexp = y0.to_numpy()[[hold_cut + h for h in steps]]
    if not (np.shape(mfit[0][2]) == Xexp.shape and np.allclose(mfit[0][2], Xexp, rtol=1e-12, atol=0)):
        discs.append(D("stacking_meta_features", "meta X %s expected %s" % (np.asarray(mfit[0][2]).tolist(), Xexp.tolist())))
    if not (np.shape(mfit[0][3]) == yexp.shape and np.array_equal(mfit[0][3], yexp)):
        discs.append(D("stacking_meta_target", "meta y %s expected %s" % (np.asarray(mfit[0][3]).tolist(), yexp.tolist())))
    if discs:
        return discs
    # prediction = meta(members' forecasts after the refit), also after updates
    def expect(members_state_y, cutoff_now):
        cols = []
        for i in range(k):
            m = RF(tag=300 + i, bias=0.1 * (i + 1))
            # with an absolute horizon the members keep forecasting the SAME time points after
            # updates; with a relative one the same steps from the new cutoff
            m.fit(y0.copy(), None, fh_obj(case, cutoff) if case["fh_mode"] == "abs" else gen.build_fh(steps, "list"))
            for b in members_state_y:
                m.update(b.copy(), update_params=case["update_params"])
            cols.append(m.predict().to_numpy(dtype=float))
        Xp = np.column_stack(cols)
        v = doubles._lin(Xp, 99)
        base = cutoff if case["fh_mode"] == "abs" else cutoff_now
        return pd.Series(v, index=[base + h for h in steps])

    p = sut(f.predict)
    discs += same(p, expect([], cutoff), "stacking_predict", "stacking")
    done = []
    for b in batches:
        u = sut(f.update, b.copy(), update_params=case["update_params"])
        if isinstance(u, Raised):
            discs.append(D("composite_raised:update:%s@%s" % (u.type, u.where), u.msg))
            break
        done.append(b)
        discs += same(sut(f.predict), expect(done, int(b.index[-1])), "stacking_predict_after_update", "stacking")
    if case.get("shared_meta") and not discs:
        # a meta-regressor that really learns (least squares), and whose object the caller also
        # hands to a second stack trained on another series: each stack's meta-model is its own
        from sklearn.linear_model import LinearRegression

        ctx.label("regressor_object_shared_by_two_stacks")
        lr = LinearRegression()
        A = StackingForecaster([("m%d" % i, RF(tag=400 + i, bias=0.1 * (i + 1))) for i in range(k)], final_regressor=lr)
        r = sut(A.fit, y0.copy(), None, fh_obj(case, cutoff))
        if isinstance(r, Raised):
            return [D("composite_raised:fit:%s@%s" % (r.type, r.where), "stacking with LinearRegression: %s" % r.msg)]
        cols = []
        for i in range(k):
            m = RF(tag=500 + i, bias=0.1 * (i + 1))
            m.fit(y0.copy(), None, fh_obj(case, cutoff) if case["fh_mode"] == "abs" else gen.build_fh(steps, "list"))
            cols.append(m.predict().to_numpy(dtype=float))
        want = pd.Series(LinearRegression().fit(Xexp, yexp).predict(np.column_stack(cols)), index=[cutoff + h for h in steps])
        discs += same(sut(A.predict), want, "stacking_predict_least_squares_meta", "stacking", tol=1e-8)
        y1 = pd.Series(y0.to_numpy()[::-1] * 2.0 + 5.0, index=y0.index)
        B = StackingForecaster([("m%d" % i, RF(tag=600 + i, bias=0.3 * (i + 1))) for i in range(k)], final_regressor=lr)
        rb = sut(B.fit, y1, None, fh_obj(case, cutoff))
        if isinstance(rb, Raised):
            return discs + [D("composite_raised:fit:%s@%s" % (rb.type, rb.where), "second stack sharing the regressor object: %s" % rb.msg)]
        discs += same(sut(A.predict), want, "stacking_predict_after_other_stack_was_fitted", "stacking", tol=1e-8)
    return discs


# ------------------------------------------------------------------ strategies
@st.composite
def base_case(draw, spec, min_extra=2):
    steps = draw(gen.fh_steps(max_step=6, max_size=3))
    n = draw(st.integers(pools.min_length(spec, steps[-1]) + min_extra, pools.min_length(spec, steps[-1]) + 16))
    updates = draw(st.lists(st.integers(1, 4), max_size=2))
    total = n + sum(updates)
    return {
        "spec": spec, "fh": steps, "n": n, "updates": updates,
        "values": draw(gen.series_values(total, total, lo=5.0, hi=300.0)),
        "start": draw(gen.index_start), "index_kind": draw(gen.index_kind),
        "fh_mode": draw(st.sampled_from(["rel", "rel", "abs"])),
        "fh_kind": draw(st.sampled_from(["list", "array", "fh"])),
        "update_params": draw(st.booleans()),
    }


def _inner():
    # members: plain, or a pipeline / ensemble (depth 2)
    plain = pools.plain_specs()
    pipe = st.builds(pools._pipeline, pools.transformer_chains(2, allow_boxcox=False), plain)
    ens = st.builds(lambda ms, a: {"kind": "ensemble", "members": ms, "aggfunc": a},
                    st.lists(plain, min_size=1, max_size=2), st.sampled_from(["mean", "median"]))
    return st.one_of(plain, plain, pipe, ens)


@st.composite
def ensemble_cases(draw):
    kind = draw(st.sampled_from(["ensemble", "ensemble", "online_ensemble"]))
    members = draw(st.lists(_inner(), min_size=1, max_size=3))
    spec = {"kind": kind, "members": members, "aggfunc": draw(st.sampled_from(["mean", "median", "min", "max"]))}
    c = draw(base_case(spec))
    if any(pools.needs_fh_in_fit(m) for m in members) and c["fh_mode"] == "abs":
        c["updates"] = []
    if kind == "online_ensemble":
        c["update_params"] = False
        alg = draw(st.sampled_from([None, "nnls", "nnls"]))  # (NormalHedge is not generated: it fails numerically when no member has positive regret)
        # (the algorithms score the members on every new batch with a horizon of their own: members
        # tied to the horizon of fit cannot be used; hedging needs at least two experts)
        if len(members) >= 2 and not any(pools.needs_fh_in_fit(m) for m in members):
            spec["algorithm"] = alg
    return c


@st.composite
def pipeline_cases(draw, boxcox=True):
    ts = draw(pools.transformer_chains(3, allow_boxcox=boxcox))
    if draw(st.integers(0, 3)) == 0:
        # a cleaning step whose inverse is skipped, at ANY position of the chain: the
        # invertible steps on either side of it must still be inverted
        pos = draw(st.integers(0, len(ts)))
        ts = ts[:pos] + [{"kind": "imputer", "method": "mean"}] + ts[pos:]
    inner = draw(st.one_of(pools.plain_specs(), pools.plain_specs(),
                           st.builds(lambda ms: {"kind": "ensemble", "members": ms, "aggfunc": "mean"},
                                     st.lists(pools.plain_specs(), min_size=1, max_size=2))))
    spec = pools._pipeline(ts, inner)
    c = draw(base_case(spec, min_extra=4))
    if pools.needs_fh_in_fit(inner) and c["fh_mode"] == "abs":
        c["updates"] = []
    c["shared_steps"] = draw(st.integers(0, 2)) == 0
    return c


@st.composite
def multiplex_cases(draw):
    members = draw(st.lists(_inner(), min_size=1, max_size=3))
    spec = {"kind": "multiplex", "members": members, "selected": draw(st.integers(0, 5))}
    c = draw(base_case(spec))
    if pools.needs_fh_in_fit(spec) and c["fh_mode"] == "abs":
        c["updates"] = []
    return c


@st.composite
def stacking_cases(draw):
    spec = {"kind": "recording"}
    c = draw(base_case(spec, min_extra=8))
    c["n"] = max(c["n"], c["fh"][-1] + 6)
    total = c["n"] + sum(c["updates"])
    if len(c["values"]) < total:
        c["values"] = c["values"] + [17.0 + i for i in range(total - len(c["values"]))]
    c["n_members"] = draw(st.integers(1, 3))
    c["shared_meta"] = draw(st.booleans())
    if c["fh_mode"] == "abs":
        # the absolute time points must stay out-of-sample while the cutoff moves on
        keep, room = [], c["fh"][0] - 1
        for u in c["updates"]:
            if u <= room:
                keep.append(u)
                room -= u
        c["updates"] = keep
    return c


def subchecks():
    return [
        SubCheck("ensemble_aggregate", oracle_ensemble, ensemble_cases(), quick=600, thorough=5000, shards_quick=6, shards_thorough=16),
        SubCheck("pipeline_chain", oracle_pipeline, pipeline_cases(), quick=600, thorough=5000, shards_quick=6, shards_thorough=16),
        SubCheck("pipeline_inner_representation", oracle_inner_representation, pipeline_cases(), quick=300, thorough=5000,
                 shards_quick=3, shards_thorough=8),
        SubCheck("multiplexer", oracle_multiplex, multiplex_cases(), quick=200, thorough=4000, shards_quick=4, shards_thorough=16),
        SubCheck("stacking_holdout", oracle_stacking, stacking_cases(), quick=400, thorough=6000, shards_quick=2, shards_thorough=8),
    ]


SELECTORS = {}
