"""C20 - malformed data, horizons and settings are rejected (DESIGN 2/C20).

A table `fault class x entry point`.  For each pair a random valid context is generated and
the *twin* inputs are run: the valid one must be accepted, the same with only the offending
aspect changed must raise ValueError / TypeError / NotImplementedError, return nothing and
leave a fresh estimator unfitted.
"""
import numpy as np
import pandas as pd
from hypothesis import strategies as st

from harness import doubles, gen, pools
from harness.runner import D, Raised, SubCheck, sut, unexpected

PROPERTY_ID = "C20"
LEVEL = "exploration"
RULE = (
    "table of (fault class x entry point) pairs - only where the statement and the anchored "
    "mechanism say the entry point accepts that kind of argument - each run on generated "
    "otherwise-valid contexts with twin inputs (valid twin accepted, invalid twin rejected with "
    "ValueError/TypeError/NotImplementedError, no result, fresh estimator left unfitted). "
    "non-trivial = every case (a twin pair); distinct = distinct JSON of the case"
)
ASSUMPTIONS = [
    "float / object pd.Index horizons and time indexes are not generated (Int64Index shim "
    "cannot reproduce pandas-1 type equality, DESIGN 0.2)",
    "single faults per call",
]
OK_ERRORS = (ValueError, TypeError, NotImplementedError)

from sktime.forecasting.base import ForecastingHorizon  # noqa: E402
from sktime.forecasting.compose import (  # noqa: E402
    EnsembleForecaster,
    MultiplexForecaster,
    StackingForecaster,
    TransformedTargetForecaster,
    make_reduction,
)
from sktime.forecasting.model_evaluation import evaluate  # noqa: E402
from sktime.forecasting.model_selection import (  # noqa: E402
    CutoffSplitter,
    ExpandingWindowSplitter,
    ForecastingGridSearchCV,
    SingleWindowSplitter,
    SlidingWindowSplitter,
    temporal_train_test_split,
)
from sktime.forecasting.naive import NaiveForecaster  # noqa: E402
from sktime.forecasting.trend import PolynomialTrendForecaster  # noqa: E402
from sktime.transformations.series.boxcox import LogTransformer  # noqa: E402
from sktime.transformations.series.detrend import Deseasonalizer  # noqa: E402
from sktime.utils.validation.forecasting import check_fh  # noqa: E402


def lin():
    from sklearn.linear_model import LinearRegression

    return doubles.ScalarOut(LinearRegression())


FORECASTERS = {
    "naive": lambda: NaiveForecaster(strategy="mean", window_length=3),
    "naive_last": lambda: NaiveForecaster(),
    "trend": lambda: PolynomialTrendForecaster(degree=1),
    "recursive": lambda: make_reduction(lin(), strategy="recursive", window_length=3),
    "direct": lambda: make_reduction(lin(), strategy="direct", window_length=3),
    "multioutput": lambda: make_reduction(lin(), strategy="multioutput", window_length=3),
    "dirrec": lambda: make_reduction(lin(), strategy="dirrec", window_length=3),
    "ensemble": lambda: EnsembleForecaster([("a", NaiveForecaster()), ("b", PolynomialTrendForecaster())]),
    "pipeline": lambda: TransformedTargetForecaster([("t", Deseasonalizer(sp=2)), ("f", NaiveForecaster())]),
    "stack": lambda: StackingForecaster([("a", NaiveForecaster()), ("b", PolynomialTrendForecaster())], final_regressor=lin()),
    "multiplex": lambda: MultiplexForecaster([("a", NaiveForecaster()), ("b", PolynomialTrendForecaster())], selected_forecaster="a"),
    "expsmooth": lambda: __import__("sktime.forecasting.exp_smoothing", fromlist=["x"]).ExponentialSmoothing(),
}
FH_DEPENDENT = ("direct", "multioutput", "dirrec", "stack")


def mk_y(ctx_):
    n = ctx_["n"]
    vals = [v + ((i * 37) % 11) / 7.0 for i, v in enumerate(ctx_["values"][:n])]
    return gen.build_series(vals, ctx_["start"], ctx_["index_kind"])


def bad_series(y, fault):
    if fault == "unsorted":
        idx = list(y.index)
        idx[0], idx[-1] = idx[-1], idx[0]
        return pd.Series(y.to_numpy(), index=pd.Index(idx, dtype="int64"))
    if fault == "unsorted_middle":
        # two neighbouring time points in the middle swapped: first, last and length are fine
        idx = list(y.index)
        m = max(0, len(idx) // 2 - 1)
        if len(idx) >= 2:
            idx[m], idx[m + 1] = idx[m + 1], idx[m]
        return pd.Series(y.to_numpy(), index=pd.Index(idx, dtype="int64"))
    if fault == "reversed_range":
        return pd.Series(y.to_numpy(), index=pd.RangeIndex(int(y.index[-1]), int(y.index[0]) - 1, -1))
    if fault == "empty":
        return y.iloc[:0]
    if fault == "dataframe":
        return pd.DataFrame({"a": y, "b": y * 2.0})
    if fault == "ndarray":
        return y.to_numpy()
    raise ValueError(fault)


def bad_fh(steps, fault, kind="list"):
    if fault == "duplicate":
        dup = list(steps) + [steps[-1]]
        if kind == "array":
            return np.array(dup, dtype="int64")
        if kind == "index_sorted":
            return pd.Index(np.array(sorted(dup), dtype="int64"))
        if kind == "index_unsorted":
            return pd.Index(np.array([dup[-1]] + dup[:-1], dtype="int64"))
        return dup
    if fault == "empty":
        # no steps at all, in every container a horizon may come in (a ForecastingHorizon object
        # may be empty when it is made; handing it to an estimator or splitter is refused)
        if kind == "array":
            return np.array([], dtype="int64")
        if kind == "index_sorted":
            return pd.Index(np.array([], dtype="int64"))
        if kind == "index_unsorted":
            return ForecastingHorizon(np.array([], dtype="int64"))
        return []
    if fault == "fractional":
        return [float(s) + 0.5 for s in steps]
    if fault == "string":
        return "next"
    if fault == "float_scalar":
        return 1.5
    if fault == "tuple":
        return tuple(steps)
    if fault == "set":
        return set(steps)
    raise ValueError(fault)


BAD_INT = {"zero": 0, "negative": -2, "fractional": 2.5, "string": "3", "bool_true": True}  # (a boolean is not an integer: is_int)


def expect_rejected(r, what, est=None, fresh=True):
    out = []
    if not isinstance(r, Raised):
        out.append(D("malformed_input_accepted:%s" % what, "returned %s" % type(r).__name__))
    elif not r.is_a(*OK_ERRORS):
        out.append(D("wrong_rejection:%s:%s@%s" % (what, r.type, r.where), r.msg))
    if est is not None and fresh:
        f = sut(lambda: est.is_fitted)
        if f is not False:
            out.append(D("fitted_state_after_rejection:%s" % what, "is_fitted=%r" % (f,)))
    return out


def expect_accepted(r, what):
    if isinstance(r, Raised):
        return [D("valid_twin_rejected:%s:%s@%s" % (what, r.type, r.where), r.msg)]
    return []


# ------------------------------------------------------------------ the table
def p_series_fault(c):
    name, fault = c["forecaster"], c["fault"]
    y = mk_y(c)
    steps = c["fh"]
    out = []
    f = FORECASTERS[name]()
    out += expect_accepted(sut(lambda: FORECASTERS[name]().fit(y.copy(), None, steps).predict()), "fit:%s" % name)
    if c["where"] == "fit":
        f = FORECASTERS[name]()
        out += expect_rejected(sut(f.fit, bad_series(y, fault), None, steps), "%s_target:fit:%s" % (fault, name), f)
    elif c["where"] == "update":
        f = FORECASTERS[name]().fit(y.copy(), None, steps)
        y_new = gen.build_series([5.0, 6.5, 7.25], int(y.index[-1]) + 1, c["index_kind"])
        out += expect_accepted(sut(FORECASTERS[name]().fit(y.copy(), None, steps).update, y_new.copy()), "update:%s" % name)
        if fault != "empty":  # an empty update is documented as a no-op
            out += expect_rejected(sut(f.update, bad_series(y_new, fault)), "%s_target:update:%s" % (fault, name), None)
    elif c["where"] == "update_predict":
        f = FORECASTERS[name]().fit(y.copy(), None, steps)
        y_new = gen.build_series([5.0 + 0.75 * j for j in range(steps[-1] + 4)], int(y.index[-1]) + 1, c["index_kind"])
        cvu = SlidingWindowSplitter(fh=steps, window_length=1)
        if name in FH_DEPENDENT:
            return out
        out += expect_accepted(sut(FORECASTERS[name]().fit(y.copy(), None, steps).update_predict, y_new.copy(), cvu), "update_predict:%s" % name)
        if fault != "empty":
            out += expect_rejected(sut(f.update_predict, bad_series(y_new, fault), cvu), "%s_target:update_predict:%s" % (fault, name), None)
    elif c["where"] == "update_predict_single":
        f = FORECASTERS[name]().fit(y.copy(), None, steps)
        y_new = gen.build_series([5.0, 6.5, 7.25], int(y.index[-1]) + 1, c["index_kind"])
        out += expect_accepted(sut(FORECASTERS[name]().fit(y.copy(), None, steps).update_predict_single, y_new.copy(), steps), "update_predict_single:%s" % name)
        if fault != "empty":
            out += expect_rejected(sut(f.update_predict_single, bad_series(y_new, fault), steps), "%s_target:update_predict_single:%s" % (fault, name), None)
    elif c["where"] == "splitter":
        if fault in ("unsorted", "unsorted_middle", "reversed_range"):
            yb = bad_series(y, fault)
            for nm, mk in (("sliding", lambda: SlidingWindowSplitter(fh=steps, window_length=3)),
                           ("expanding", lambda: ExpandingWindowSplitter(fh=steps, initial_window=3)),
                           ("single", lambda: SingleWindowSplitter(fh=steps)),
                           ("cutoff", lambda: CutoffSplitter(np.array([4]), fh=steps, window_length=3))):
                out += expect_accepted(sut(lambda: list(mk().split(y))), "%s.split" % nm)
                out += expect_rejected(sut(lambda: list(mk().split(yb))), "%s_target:%s.split" % (fault, nm))
    elif c["where"] == "evaluate":
        cv = SlidingWindowSplitter(fh=1, window_length=8)
        out += expect_accepted(sut(evaluate, NaiveForecaster(), cv, y.copy()), "evaluate")
        out += expect_rejected(sut(evaluate, NaiveForecaster(), cv, bad_series(y, fault)), "%s_target:evaluate" % fault)
    else:
        cv = SlidingWindowSplitter(fh=1, window_length=8)
        g = ForecastingGridSearchCV(NaiveForecaster(), cv=cv, param_grid={"strategy": ["last", "mean"]})
        out += expect_accepted(sut(ForecastingGridSearchCV(NaiveForecaster(), cv=cv, param_grid={"strategy": ["last", "mean"]}).fit, y.copy()), "tuner.fit")
        out += expect_rejected(sut(g.fit, bad_series(y, fault)), "%s_target:tuner.fit" % fault, g)
    return out


def p_x_index(c):
    name = c["forecaster"]
    y = mk_y(c)
    X = pd.DataFrame({"a": np.arange(len(y), dtype=float)}, index=y.index)
    Xbad = pd.DataFrame({"a": np.arange(len(y), dtype=float)}, index=gen.int_index(int(y.index[0]) + 1, len(y), c["index_kind"]))
    out = []
    if c.get("x_variant") == "tts":
        # the train/test split by a horizon takes the exogenous data along: its rows are
        # those of the target's time points, so another index is refused, not re-aligned
        n = len(y)
        ik = c["index_kind"]
        y0 = int(y.index[0])
        steps = c["fh"]
        for fh_arg in (list(steps), ForecastingHorizon([int(y.index[-1]) - (steps[-1] - h) for h in steps], is_relative=False)):
            what = "relative" if isinstance(fh_arg, list) else "absolute"
            out += expect_accepted(sut(temporal_train_test_split, y.copy(), X.copy(), fh=fh_arg), "temporal_train_test_split_with_X(%s fh)" % what)
            for tag, idx in (("shifted", gen.int_index(y0 + 1, n, ik)), ("longer", gen.int_index(y0, n + 2, ik)),
                             ("leading", gen.int_index(y0 - 2, n + 2, ik)), ("shorter", gen.int_index(y0, n - 1, ik)),
                             ("rows_reversed", y.index[::-1])):
                Xb = pd.DataFrame({"a": np.arange(len(idx), dtype=float)}, index=idx)
                out += expect_rejected(sut(temporal_train_test_split, y.copy(), Xb, fh=fh_arg), "X_index_differs(%s):temporal_train_test_split(%s fh)" % (tag, what))
        return out
    f = FORECASTERS[name]()
    r = sut(FORECASTERS[name]().fit, y.copy(), X.copy(), c["fh"])
    if isinstance(r, Raised) and r.is_a(NotImplementedError):
        return []  # this forecaster documents that it does not take X at all
    out += expect_accepted(r, "fit_with_X:%s" % name)
    variant = c.get("x_variant", "fit")
    if variant == "fit":
        out += expect_rejected(sut(f.fit, y.copy(), Xbad, c["fh"]), "X_index_differs:fit:%s" % name, f)
    elif variant == "fit_shorter":
        out += expect_rejected(sut(f.fit, y.copy(), X.iloc[:-1].copy(), c["fh"]), "X_shorter_than_y:fit:%s" % name, f)
    elif variant in ("fit_longer", "fit_leading"):
        # X covers every time point of y and more (e.g. future rows): still not the same index
        n_extra = 2
        start = int(y.index[0]) - (n_extra if variant == "fit_leading" else 0)
        Xl = pd.DataFrame({"a": np.arange(len(y) + n_extra, dtype=float)}, index=gen.int_index(start, len(y) + n_extra, c["index_kind"]))
        out += expect_rejected(sut(f.fit, y.copy(), Xl, c["fh"]), "X_index_superset_of_y:fit:%s" % name, f)
    elif variant == "update":
        g = FORECASTERS[name]().fit(y.copy(), X.copy(), c["fh"])
        y_new = gen.build_series([5.0, 6.5, 7.25], int(y.index[-1]) + 1, c["index_kind"])
        X_new = pd.DataFrame({"a": [1.0, 2.0, 3.0]}, index=y_new.index)
        X_off = pd.DataFrame({"a": [1.0, 2.0, 3.0]}, index=gen.int_index(int(y_new.index[0]) + 1, 3, c["index_kind"]))
        ok = sut(FORECASTERS[name]().fit(y.copy(), X.copy(), c["fh"]).update, y_new.copy(), X_new.copy())
        out += expect_accepted(ok, "update_with_X:%s" % name)
        out += expect_rejected(sut(g.update, y_new.copy(), X_off), "X_index_differs:update:%s" % name)
        # ... also when the parameters are not to be updated (nothing is refitted), through
        # update_predict_single, and for exogenous data that is shorter or longer than the batch:
        # a rejected batch leaves the cutoff where it was
        X_short = X_new.iloc[:2]
        X_long = pd.DataFrame({"a": [0.5, 1.0, 2.0, 3.0]}, index=gen.int_index(int(y_new.index[0]) - 1, 4, c["index_kind"]))
        for tag, Xb in (("shifted", X_off), ("shorter", X_short), ("reaching_back", X_long)):
            h = FORECASTERS[name]().fit(y.copy(), X.copy(), c["fh"])
            c0 = h.cutoff
            out += expect_rejected(sut(h.update, y_new.copy(), Xb.copy(), False), "X_index_differs(%s):update(update_params=False):%s" % (tag, name))
            c1 = sut(lambda: h.cutoff)
            if not out and (isinstance(c1, Raised) or c1 != c0):
                out.append(D("state_changed_by_rejected_update:%s" % name, "cutoff %r -> %r after a rejected update (%s exogenous index)" % (c0, c1, tag)))
        if name in ("ensemble", "multiplex"):
            h = FORECASTERS[name]().fit(y.copy(), X.copy(), c["fh"])
            out += expect_rejected(sut(h.update_predict_single, y_new.copy(), c["fh"], X_off.copy(), False),
                                   "X_index_differs:update_predict_single(update_params=False):%s" % name)
    else:
        cv = SlidingWindowSplitter(fh=1, window_length=8)
        out += expect_accepted(sut(evaluate, FORECASTERS[name](), cv, y.copy(), X.copy()), "evaluate_with_X:%s" % name)
        out += expect_rejected(sut(evaluate, FORECASTERS[name](), cv, y.copy(), Xbad), "X_index_differs:evaluate:%s" % name)
    return out


def p_fh_fault(c):
    fault, where = c["fault"], c["where"]
    y = mk_y(c)
    steps = c["fh"]
    out = []
    bad = bad_fh(steps, fault, c.get("dup_kind", "list"))
    if where == "constructor":
        out += expect_accepted(sut(ForecastingHorizon, list(steps)), "ForecastingHorizon")
        out += expect_rejected(sut(ForecastingHorizon, bad), "%s_horizon:ForecastingHorizon" % fault) if fault != "empty" else []
        out += expect_rejected(sut(check_fh, bad), "%s_horizon:check_fh" % fault)
    elif where in ("fit", "predict"):
        name = c["forecaster"]
        if where == "fit":
            f = FORECASTERS[name]()
            out += expect_accepted(sut(FORECASTERS[name]().fit, y.copy(), None, list(steps)), "fit:%s" % name)
            out += expect_rejected(sut(f.fit, y.copy(), None, bad), "%s_horizon:fit:%s" % (fault, name), f)
        elif name not in FH_DEPENDENT:
            f = FORECASTERS[name]().fit(y.copy())
            out += expect_accepted(sut(FORECASTERS[name]().fit(y.copy()).predict, list(steps)), "predict:%s" % name)
            out += expect_rejected(sut(f.predict, bad), "%s_horizon:predict:%s" % (fault, name))
    elif where == "splitter":
        out += expect_accepted(sut(lambda: list(SlidingWindowSplitter(fh=list(steps), window_length=3).split(y))), "sliding.split")
        out += expect_rejected(sut(lambda: list(SlidingWindowSplitter(fh=bad, window_length=3).split(y))), "%s_horizon:sliding.split" % fault)
        out += expect_rejected(sut(lambda: list(ExpandingWindowSplitter(fh=bad, initial_window=3).split(y))), "%s_horizon:expanding.split" % fault)
        out += expect_rejected(sut(lambda: list(SingleWindowSplitter(fh=bad).split(y))), "%s_horizon:single.split" % fault)
        out += expect_rejected(sut(lambda: list(CutoffSplitter(np.array([4]), fh=bad, window_length=3).split(y))), "%s_horizon:cutoff.split" % fault)
    else:
        out += expect_accepted(sut(temporal_train_test_split, y.copy(), fh=list(steps)), "temporal_train_test_split")
        out += expect_rejected(sut(temporal_train_test_split, y.copy(), fh=bad), "%s_horizon:temporal_train_test_split" % fault)
    return out


def p_missing_fh(c):
    name = c["forecaster"]
    y = mk_y(c)
    out = []
    if name in FH_DEPENDENT:
        f = FORECASTERS[name]()
        out += expect_accepted(sut(FORECASTERS[name]().fit, y.copy(), None, c["fh"]), "fit:%s" % name)
        out += expect_rejected(sut(f.fit, y.copy()), "missing_horizon:fit:%s" % name, f)
        # fitting an object again starts afresh: the horizon of an earlier fit does not stand in
        # for a missing one, and another valid horizon is as good as the first
        y2 = gen.build_series([float(v) * 1.5 + 2.0 for v in y.to_numpy()[::-1]], int(y.index[0]) + 3, c["index_kind"])
        g = FORECASTERS[name]().fit(y.copy(), None, c["fh"])
        other = [h + 1 for h in c["fh"]]
        out += expect_accepted(sut(FORECASTERS[name]().fit(y.copy(), None, c["fh"]).fit, y2.copy(), None, other), "fit_again_with_another_horizon:%s" % name)
        r = sut(g.fit, y2.copy())
        out += expect_rejected(r, "missing_horizon:second_fit:%s" % name)
    else:
        f = FORECASTERS[name]().fit(y.copy())
        out += expect_accepted(sut(FORECASTERS[name]().fit(y.copy()).predict, c["fh"]), "predict:%s" % name)
        out += expect_rejected(sut(f.predict), "missing_horizon:predict:%s" % name)
    return out


def p_fh_differs(c):
    name = c["forecaster"]  # fh-dependent only
    y = mk_y(c)
    steps = c["fh"]
    v = c["variant"]
    if v == 0:
        other = [s + 1 for s in steps]
    elif v == 1:
        other = steps + [steps[-1] + 1]
    elif v == 2:
        other = steps[:-1] if len(steps) > 1 else [steps[0] + 2]  # a strict prefix
    elif v == 3:
        other = steps[1:] if len(steps) > 1 else [steps[0] + 1]  # a strict suffix
    else:
        other = [steps[-1] + 3]
    f = FORECASTERS[name]().fit(y.copy(), None, steps)
    out = expect_accepted(sut(f.predict, list(steps)), "predict_same_fh:%s" % name)
    out += expect_accepted(sut(f.predict), "predict_no_fh:%s" % name)
    if c.get("at", "predict") == "predict":
        out += expect_rejected(sut(f.predict, other), "horizon_differs_from_fit:%s" % name)
    else:
        y_new = gen.build_series([5.0, 6.5, 7.25], int(y.index[-1]) + 1, c["index_kind"])
        out += expect_rejected(sut(f.update_predict_single, y_new, other), "horizon_differs_from_fit:update_predict_single:%s" % name)
    return out


def _first_fold(cv, y):
    """The first fold of a splitter: a refusal comes before ANY result is produced (a generator
    that yields a fold and fails afterwards has accepted its input)."""
    return next(iter(cv.split(y)))


def p_bad_int_param(c):
    where, bad = c["where"], BAD_INT[c["fault"]]
    y = mk_y(c)
    out = []
    tag = "%s_%s" % (c["fault"], c["param"])
    if where == "sliding":
        kw = {"fh": 1, "window_length": 3, "step_length": 1}
        out += expect_accepted(sut(lambda: list(SlidingWindowSplitter(**kw).split(y))), "sliding.split")
        kw[c["param"]] = bad
        out += expect_rejected(sut(lambda: _first_fold(SlidingWindowSplitter(**kw), y)), "%s:sliding.split" % tag)
        if c["param"] == "window_length":
            # the (optional) longer first window is a window length like any other: a value that
            # is not an integer is refused before a first fold is produced
            ok = {"fh": 1, "window_length": 3, "step_length": 1, "initial_window": 6}
            out += expect_accepted(sut(lambda: list(SlidingWindowSplitter(**ok).split(y))), "sliding.split(initial_window)")
            for biw in ({"fractional": 6.5, "string": "6", "zero": 6.0, "negative": -6, "bool_true": True}[c["fault"]],):
                kb = dict(ok, initial_window=biw)
                out += expect_rejected(sut(lambda: _first_fold(SlidingWindowSplitter(**kb), y)), "%s_initial_window(%r):sliding.split" % (c["fault"], biw))
    elif where == "expanding":
        kw = {"fh": 1, "initial_window": 3, "step_length": 1}
        out += expect_accepted(sut(lambda: list(ExpandingWindowSplitter(**kw).split(y))), "expanding.split")
        kw["initial_window" if c["param"] == "window_length" else c["param"]] = bad
        out += expect_rejected(sut(lambda: _first_fold(ExpandingWindowSplitter(**kw), y)), "%s:expanding.split" % tag)
    elif where == "cutoff":
        if c["param"] != "window_length":
            return []
        out += expect_accepted(sut(lambda: list(CutoffSplitter(np.array([5]), fh=1, window_length=3).split(y))), "cutoff.split")
        out += expect_rejected(sut(lambda: list(CutoffSplitter(np.array([5]), fh=1, window_length=bad).split(y))), "%s:cutoff.split" % tag)
    elif where == "naive":
        if c["param"] == "window_length":
            f = NaiveForecaster(strategy="mean", window_length=bad)
            out += expect_accepted(sut(NaiveForecaster(strategy="mean", window_length=3).fit, y.copy()), "naive.fit")
        elif c["param"] == "sp":
            f = NaiveForecaster(strategy=c["strategy"], sp=bad)
            out += expect_accepted(sut(NaiveForecaster(strategy=c["strategy"], sp=2).fit, y.copy()), "naive.fit")
        else:
            return []
        out += expect_rejected(sut(f.fit, y.copy()), "%s:naive_%s.fit" % (tag, c["strategy"] if c["param"] == "sp" else "mean"), f)
    elif where == "reduce":
        if c["param"] != "window_length":
            return []
        strat = c["strategy_r"]
        out += expect_accepted(sut(make_reduction(lin(), strategy=strat, window_length=3).fit, y.copy(), None, [1, 2]), "reduce.fit")
        f = make_reduction(lin(), strategy=strat, window_length=bad)
        out += expect_rejected(sut(f.fit, y.copy(), None, [1, 2]), "%s:reduce_%s.fit" % (tag, strat), f)
    else:  # deseasonalizer: sp is validated in the constructor
        if c["param"] != "sp":
            return []
        out += expect_accepted(sut(lambda: Deseasonalizer(sp=2).fit(y.copy())), "deseasonalizer")
        out += expect_rejected(sut(lambda: Deseasonalizer(sp=bad).fit(y.copy())), "%s:deseasonalizer" % tag)
    return out


def p_window_does_not_fit(c):
    y = mk_y(c)
    n = len(y)
    where = c["where"]
    h = c["fh"][-1]
    out = []
    if where == "sliding":
        out += expect_accepted(sut(lambda: list(SlidingWindowSplitter(fh=c["fh"], window_length=n - h).split(y))), "sliding.split")
        out += expect_rejected(sut(lambda: list(SlidingWindowSplitter(fh=c["fh"], window_length=n - h + 1 + c["excess"]).split(y))), "window_too_long:sliding.split")
        # ... whichever way the splitter starts, and when it is the cv of update_predict
        for sww in (True, False):
            out += expect_accepted(sut(lambda: list(SlidingWindowSplitter(fh=c["fh"], window_length=n - h, start_with_window=sww).split(y))),
                                   "sliding(start_with_window=%s).split" % sww)
            out += expect_rejected(sut(lambda: list(SlidingWindowSplitter(fh=c["fh"], window_length=n - h + 1 + c["excess"], start_with_window=sww).split(y))),
                                   "window_too_long:sliding(start_with_window=%s).split" % sww)
            out += expect_rejected(sut(lambda: list(ExpandingWindowSplitter(fh=c["fh"], initial_window=n - h + 1 + c["excess"], start_with_window=sww).split(y))),
                                   "window_too_long:expanding(start_with_window=%s).split" % sww)
            g = NaiveForecaster().fit(gen.build_series([3.0, 4.5, 5.25, 4.0], int(y.index[0]) - 4, c["index_kind"]))
            out += expect_rejected(sut(g.update_predict, y.copy(), SlidingWindowSplitter(fh=c["fh"], window_length=n - h + 1 + c["excess"], start_with_window=sww)),
                                   "window_too_long:update_predict(cv start_with_window=%s)" % sww)
    elif where == "sliding_initial":
        # the regular window fits, the initial window does not
        wl = max(1, min(c.get("wl_small", 2), n - h - 1))
        out += expect_accepted(sut(lambda: list(SlidingWindowSplitter(fh=c["fh"], window_length=wl, initial_window=n - h).split(y))), "sliding_initial.split")
        out += expect_rejected(sut(lambda: list(SlidingWindowSplitter(fh=c["fh"], window_length=wl, initial_window=n - h + 1 + c["excess"]).split(y))),
                               "initial_window_too_long:sliding.split")
    elif where == "expanding":
        out += expect_accepted(sut(lambda: list(ExpandingWindowSplitter(fh=c["fh"], initial_window=n - h).split(y))), "expanding.split")
        out += expect_rejected(sut(lambda: list(ExpandingWindowSplitter(fh=c["fh"], initial_window=n - h + 1 + c["excess"]).split(y))), "window_too_long:expanding.split")
    elif where == "cutoff":
        out += expect_accepted(sut(lambda: list(CutoffSplitter(np.array([n - 1 - h]), fh=c["fh"], window_length=3).split(y))), "cutoff.split")
        out += expect_rejected(sut(lambda: list(CutoffSplitter(np.array([n - h + c["excess"]]), fh=c["fh"], window_length=3).split(y))), "cutoff_beyond_series:cutoff.split")
    elif where == "naive":
        f = NaiveForecaster(strategy="mean", window_length=n + 1 + c["excess"])
        out += expect_accepted(sut(NaiveForecaster(strategy="mean", window_length=n).fit, y.copy()), "naive.fit")
        out += expect_rejected(sut(f.fit, y.copy()), "window_too_long:naive.fit", f)
        f2 = NaiveForecaster(strategy="last", sp=n + 1 + c["excess"])
        out += expect_rejected(sut(f2.fit, y.copy()), "sp_longer_than_series:naive.fit", f2)
    else:
        strat = c["strategy_r"]
        hh = 1 if strat == "recursive" else h
        out += expect_accepted(sut(make_reduction(lin(), strategy=strat, window_length=n - hh).fit, y.copy(), None, c["fh"]), "reduce.fit")
        f = make_reduction(lin(), strategy=strat, window_length=n - hh + 1 + c["excess"])
        out += expect_rejected(sut(f.fit, y.copy(), None, c["fh"]), "window_too_long:reduce_%s.fit" % strat, f)
    return out


CASE_VARIANTS = {
    "naive": ["Last", "MEAN", "Drift"], "reduction_strategy": ["Direct", "RECURSIVE", "DirRec"],
    "reduction_scitype": ["Tabular-Regressor", "TIME-SERIES-REGRESSOR", "Infer"], "evaluate": ["Refit", "UPDATE", "Update", "rEfIt"],
    "aggfunc": ["Mean", "MEDIAN", "Max"],
}


def p_unknown_name(c):
    y = mk_y(c)
    where = c["where"]
    bad = c["bad_name"]
    if isinstance(bad, int):
        # a valid name of this entry point in another letter case is an unknown name too
        bad = CASE_VARIANTS[where][bad % len(CASE_VARIANTS[where])]
    out = []
    if where == "naive":
        f = NaiveForecaster(strategy=bad)
        out += expect_accepted(sut(NaiveForecaster(strategy="drift").fit, y.copy()), "naive.fit")
        out += expect_rejected(sut(f.fit, y.copy()), "unknown_strategy:naive.fit", f)
    elif where == "reduction_strategy":
        out += expect_accepted(sut(make_reduction, lin(), strategy="direct"), "make_reduction")
        out += expect_rejected(sut(make_reduction, lin(), strategy=bad), "unknown_strategy:make_reduction")
    elif where == "reduction_scitype":
        out += expect_accepted(sut(make_reduction, lin(), scitype="tabular-regressor"), "make_reduction")
        out += expect_rejected(sut(make_reduction, lin(), scitype=bad), "unknown_scitype:make_reduction")
        out += expect_rejected(sut(make_reduction, object(), scitype="infer"), "uninferable_scitype:make_reduction")
    elif where == "evaluate":
        cv = SlidingWindowSplitter(fh=1, window_length=8)
        out += expect_accepted(sut(evaluate, NaiveForecaster(), cv, y.copy(), strategy="update"), "evaluate")
        out += expect_rejected(sut(evaluate, NaiveForecaster(), cv, y.copy(), strategy=bad), "unknown_strategy:evaluate")
    else:
        f = EnsembleForecaster([("a", NaiveForecaster())], aggfunc=bad)
        out += expect_accepted(sut(lambda: EnsembleForecaster([("a", NaiveForecaster())], aggfunc="median").fit(y.copy()).predict(1)), "ensemble")
        out += expect_rejected(sut(lambda: f.fit(y.copy()).predict(1)), "unknown_aggfunc:ensemble")
    return out


def p_composite(c):
    y = mk_y(c)
    kind, fault = c["composite"], c["fault"]
    a, b = NaiveForecaster(), PolynomialTrendForecaster()

    def build(members):
        if kind == "ensemble":
            return EnsembleForecaster(members)
        if kind == "stack":
            return StackingForecaster(members, final_regressor=lin())
        if kind == "multiplex":
            return MultiplexForecaster(members, selected_forecaster=members[0][0] if members else None)
        return TransformedTargetForecaster(members)

    if kind == "pipeline":
        good = [("t", LogTransformer()), ("f", a)]
        bads = {
            "duplicate_names": [("t", LogTransformer()), ("t", a)],
            "dunder_name": [("t__x", LogTransformer()), ("f", a)],
            "name_is_ctor_arg": [("steps", LogTransformer()), ("f", a)],
            "non_transformer_step": [("t", b), ("f", a)],
            "last_step_not_forecaster": [("t", LogTransformer()), ("f", LogTransformer())],
        }
    else:
        good = [("a", a), ("b", b)]
        bads = {
            "duplicate_names": [("a", a), ("a", b)],
            "dunder_name": [("a__x", a), ("b", b)],
            "name_is_ctor_arg": [("forecasters", a), ("b", b)],
            "name_is_optional_ctor_arg": [({"ensemble": "aggfunc", "stack": "n_jobs", "multiplex": "selected_forecaster"}[kind], a), ("b", b)],
            "empty_list": [],
            "non_forecaster_member": [("a", a), ("b", LogTransformer())],
        }
    if fault not in bads:
        return []
    out = expect_accepted(sut(build(good).fit, y.copy(), None, [1, 2]), "%s.fit" % kind)
    r = sut(build, bads[fault])
    if isinstance(r, Raised):
        return out + expect_rejected(r, "%s:%s" % (fault, kind))
    out += expect_rejected(sut(r.fit, y.copy(), None, [1, 2]), "%s:%s.fit" % (fault, kind), r)
    return out


PAIRS = {
    "series_fault": p_series_fault, "x_index": p_x_index, "fh_fault": p_fh_fault, "missing_fh": p_missing_fh,
    "fh_differs": p_fh_differs, "bad_int_param": p_bad_int_param, "window_does_not_fit": p_window_does_not_fit,
    "unknown_name": p_unknown_name, "composite": p_composite,
}


def oracle(case, ctx):
    ctx.mark_nontrivial(True)
    ctx.label(case["pair"])
    return PAIRS[case["pair"]](case)


@st.composite
def cases(draw, pair):
    n = draw(st.integers(14, 30))
    c = {"pair": pair, "n": n, "values": draw(gen.series_values(n, n, lo=5.0, hi=200.0)),
         "start": draw(gen.index_start), "index_kind": draw(gen.index_kind),
         "fh": draw(gen.fh_steps(max_step=4, max_size=3))}
    if pair == "series_fault":
        c["where"] = draw(st.sampled_from(["fit", "fit", "update", "evaluate", "tuner", "update_predict", "update_predict_single", "splitter"]))
        c["forecaster"] = draw(st.sampled_from(sorted(FORECASTERS)))
        c["fault"] = draw(st.sampled_from(["unsorted", "unsorted_middle", "reversed_range", "empty", "dataframe", "ndarray"]))
    elif pair == "x_index":
        c["forecaster"] = draw(st.sampled_from(["naive", "recursive", "direct", "multioutput", "ensemble", "multiplex", "expsmooth"]))
        c["x_variant"] = draw(st.sampled_from(["fit", "fit", "fit_shorter", "fit_longer", "fit_leading", "update", "evaluate", "tts"]))
    elif pair == "fh_fault":
        c["where"] = draw(st.sampled_from(["constructor", "fit", "predict", "splitter", "tts"]))
        c["forecaster"] = draw(st.sampled_from(sorted(FORECASTERS)))
        c["fault"] = draw(st.sampled_from(["duplicate", "duplicate", "empty", "fractional", "string", "float_scalar", "tuple", "set"]))
        c["dup_kind"] = draw(st.sampled_from(["list", "array", "index_sorted", "index_unsorted"]))
    elif pair == "missing_fh":
        c["forecaster"] = draw(st.sampled_from(sorted(FORECASTERS)))
    elif pair == "fh_differs":
        c["forecaster"] = draw(st.sampled_from(FH_DEPENDENT))
        c["variant"] = draw(st.integers(0, 4))
        c["at"] = draw(st.sampled_from(["predict", "predict", "update_predict_single"]))
    elif pair == "bad_int_param":
        c["where"] = draw(st.sampled_from(["sliding", "expanding", "cutoff", "naive", "reduce", "deseasonalizer"]))
        c["param"] = draw(st.sampled_from(["window_length", "step_length", "sp"]))
        if c["where"] in ("sliding", "expanding") and c["param"] == "sp":
            c["param"] = "step_length"
        if c["where"] == "cutoff" or c["where"] == "reduce":
            c["param"] = "window_length"
        if c["where"] == "deseasonalizer":
            c["param"] = "sp"
        if c["where"] == "naive" and c["param"] == "step_length":
            c["param"] = "sp"
        c["fault"] = draw(st.sampled_from(sorted(BAD_INT)))
        c["strategy"] = draw(st.sampled_from(["last", "mean"]))
        c["strategy_r"] = draw(st.sampled_from(["direct", "recursive", "multioutput", "dirrec"]))
    elif pair == "window_does_not_fit":
        c["where"] = draw(st.sampled_from(["sliding", "sliding_initial", "expanding", "cutoff", "naive", "reduce"]))
        c["excess"] = draw(st.integers(0, 3))
        c["wl_small"] = draw(st.integers(1, 4))
        c["strategy_r"] = draw(st.sampled_from(["direct", "recursive", "multioutput", "dirrec"]))
    elif pair == "unknown_name":
        c["where"] = draw(st.sampled_from(["naive", "reduction_strategy", "reduction_scitype", "evaluate", "aggfunc"]))
        c["bad_name"] = draw(st.sampled_from(["", "Last", "mean ", "nope", "refit2", "avg", "MEAN", 0, 1, 2, 3]))
    else:
        c["composite"] = draw(st.sampled_from(["ensemble", "stack", "multiplex", "pipeline"]))
        c["fault"] = draw(st.sampled_from(["duplicate_names", "dunder_name", "name_is_ctor_arg", "name_is_optional_ctor_arg", "empty_list",
                                           "non_forecaster_member", "non_transformer_step", "last_step_not_forecaster"]))
    return c


def enum_table(tier):
    """Every combination of the DISCRETE choices of every pair (fault class x entry point x
    forecaster x variant), on two fixed contexts: the table itself is finite, only the
    otherwise-valid context is sampled (by the generated sub-checks)."""
    import itertools

    contexts = [
        {"n": 20, "values": [7.0 + 1.5 * ((j * 7) % 5) + 0.25 * j for j in range(20)], "start": 3, "index_kind": "range", "fh": [1, 2]},
        {"n": 17, "values": [40.0 - 0.75 * j + 2.0 * ((j * 3) % 4) for j in range(17)], "start": -6, "index_kind": "int64", "fh": [2, 4]},
    ]
    fc = sorted(FORECASTERS)
    table = []
    for w, f, fl in itertools.product(["fit", "update", "evaluate", "tuner", "update_predict", "update_predict_single", "splitter"], fc,
                                      ["unsorted", "unsorted_middle", "reversed_range", "empty", "dataframe", "ndarray"]):
        if w in ("evaluate", "tuner", "splitter") and f != fc[0]:
            continue
        table.append({"pair": "series_fault", "where": w, "forecaster": f, "fault": fl})
    for f, v in itertools.product(["naive", "recursive", "direct", "multioutput", "ensemble", "multiplex", "expsmooth"],
                                  ["fit", "fit_shorter", "fit_longer", "fit_leading", "update", "evaluate"]):
        table.append({"pair": "x_index", "forecaster": f, "x_variant": v})
    table.append({"pair": "x_index", "forecaster": "naive", "x_variant": "tts"})
    for w, fl, dk in itertools.product(["constructor", "fit", "predict", "splitter", "tts"],
                                       ["duplicate", "empty", "fractional", "string", "float_scalar", "tuple", "set"],
                                       ["list", "array", "index_sorted", "index_unsorted"]):
        if fl not in ("duplicate", "empty") and dk != "list":
            continue
        for f in (fc if w in ("fit", "predict") else fc[:1]):
            table.append({"pair": "fh_fault", "where": w, "forecaster": f, "fault": fl, "dup_kind": dk})
    for f in fc:
        table.append({"pair": "missing_fh", "forecaster": f})
    for f, v, at in itertools.product(FH_DEPENDENT, range(5), ["predict", "update_predict_single"]):
        table.append({"pair": "fh_differs", "forecaster": f, "variant": v, "at": at})
    for w, prm, fl, stg, sr in itertools.product(["sliding", "expanding", "cutoff", "naive", "reduce", "deseasonalizer"],
                                                ["window_length", "step_length", "sp"], sorted(BAD_INT), ["last", "mean"],
                                                ["direct", "recursive", "multioutput", "dirrec"]):
        if w != "reduce" and sr != "direct":
            continue
        if w != "naive" and stg != "last":
            continue
        table.append({"pair": "bad_int_param", "where": w, "param": prm, "fault": fl, "strategy": stg, "strategy_r": sr})
    for w, ex, ws, sr in itertools.product(["sliding", "sliding_initial", "expanding", "cutoff", "naive", "reduce"], range(4), [1, 3],
                                           ["direct", "recursive", "multioutput", "dirrec"]):
        if w != "reduce" and sr != "direct":
            continue
        table.append({"pair": "window_does_not_fit", "where": w, "excess": ex, "wl_small": ws, "strategy_r": sr})
    for w, b in itertools.product(["naive", "reduction_strategy", "reduction_scitype", "evaluate", "aggfunc"],
                                  ["", "Last", "mean ", "nope", "refit2", "avg", "MEAN", 0, 1, 2, 3]):
        table.append({"pair": "unknown_name", "where": w, "bad_name": b})
    for k, fl in itertools.product(["ensemble", "stack", "multiplex", "pipeline"],
                                   ["duplicate_names", "dunder_name", "name_is_ctor_arg", "name_is_optional_ctor_arg", "empty_list", "non_forecaster_member",
                                    "non_transformer_step", "last_step_not_forecaster"]):
        table.append({"pair": "composite", "composite": k, "fault": fl})
    for ctx_ in contexts:
        for row in table:
            yield dict(ctx_, **row)


def subchecks():
    return [SubCheck("whole_table_fixed_context", oracle, enumerate_cases=enum_table, shards_quick=8, shards_thorough=16, exhaustive=True)] + [
        SubCheck(p, oracle, cases(p), quick=400, thorough=4000, shards_quick=2, shards_thorough=4) for p in PAIRS]


SELECTORS = {}
