"""C14 - closed-form transformers compute the function they document (DESIGN 2/C14)."""
from fractions import Fraction

import math

import numpy as np
import pandas as pd
from hypothesis import strategies as st

from harness import gen, panelpool
from harness.runner import D, Raised, SubCheck, sut, unexpected

PROPERTY_ID = "C14"
LEVEL = "exploration"
RULE = (
    "one sub-check per transformer; generated panels (1..6 instances, 1..3 columns, lengths "
    "2..30, equal and - where supported - unequal, nested Series cells or 3-D array) or single "
    "series (with leading / interior / trailing gaps for imputation) and the transformer's options "
    "(optionally given through set_params, on an object fitted before on a panel of other lengths); "
    "oracle = a plain-loop reference written from the docstring (PAA frames with exact "
    "fractions). non-trivial = option away from its default, or unequal lengths, or >= 2 columns, "
    "or length not divisible by the number of frames/intervals, or a gap at the edge; distinct = "
    "distinct JSON of the case"
)
ASSUMPTIONS = [
    "float results compared with rtol 1e-9; selections / paddings exactly",
    "DerivativeSlope / DWT / HOG1D are held to the row-count and order clause only (Slope: closed form for power-of-two interval counts)",
    "nearest-neighbour imputation: a tie between two equally distant neighbours may go either way",
]


def panel(case):
    """Returns (list of list of 1-d arrays [instance][column], container object)."""
    n, c = case["n"], case["c"]
    lens = case["lengths"]
    rng = np.random.RandomState(case["seed"] % (2 ** 31 - 1))
    cstep = (case.get("col_len_step") or 0) if c >= 2 else 0  # variables recorded at different rates: longer series in later columns
    cells = [[np.round(rng.normal(size=lens[i] + cstep * j).cumsum() * case.get("scale", 1.0), 5) for j in range(c)] for i in range(n)]
    if case.get("int_cells"):
        # integer-valued observations stored with an integer dtype (counts)
        cells = [[np.round(v * 4).astype("int64") for v in row] for row in cells]
    equal = len(set(lens)) == 1 and not cstep
    if case.get("container") == "numpy3d" and equal:
        X = np.array(cells, dtype="int64" if case.get("int_cells") else float)
    else:
        # cells carry their own time labels; these transformers are defined by position, so a
        # panel whose cells start at another label (a slice of longer recordings) gives the same values
        o = case.get("cell_origin") or 0
        X = pd.DataFrame({"dim_%d" % j: [pd.Series(cells[i][j].copy(), index=pd.RangeIndex(o, o + len(cells[i][j]))) for i in range(n)]
                          for j in range(c)})
        # column names are labels, not data: the column order of the panel is the order that counts
        if case.get("col_names") == "unsorted":
            X.columns = pd.Index(["zeta", "dim_10", "Alpha", "dim_2"][:c])
        elif case.get("col_names") == "ints_reversed":
            X.columns = pd.Index(list(range(c - 1, -1, -1)))
    return cells, X


def cell(v):
    return np.asarray(v, dtype=float)


def frame_cells(Xt):
    return [[cell(Xt.iloc[i, j]) for j in range(Xt.shape[1])] for i in range(Xt.shape[0])]


def cmp_cells(got, exp, what, exact=True):
    if len(got) != len(exp):
        return [D("row_count:%s" % what, "%d rows for %d instances" % (len(got), len(exp)))]
    for i, (rg, re_) in enumerate(zip(got, exp)):
        if len(rg) != len(re_):
            return [D("column_count:%s" % what, "instance %d: %d cells expected %d" % (i, len(rg), len(re_)))]
        for j, (a, b) in enumerate(zip(rg, re_)):
            if a.shape != b.shape:
                return [D("length:%s" % what, "instance %d col %d: length %s expected %s" % (i, j, a.shape, b.shape))]
            ok = np.array_equal(a, b, equal_nan=True) if exact else np.allclose(a, b, rtol=1e-9, atol=1e-12, equal_nan=True)
            if not ok:
                return [D("values:%s" % what, "instance %d col %d: got %s expected %s" % (i, j, a.tolist(), b.tolist()))]
    return []


def run(t, X, fitX=None, y=None, case=None):
    if case is not None and case.get("prefit") is not None:
        # the same object was fitted before, on a panel of other lengths: what it computes
        # afterwards is a function of the LAST fit only
        other = dict(case, seed=case["seed"] + 1, lengths=[max(2, v + case["prefit"]) for v in case["lengths"]])
        _, Xo = panel(other)
        sut(lambda: t.fit(Xo, y))
    if case is not None and case.get("fit_other") and fitX is None:
        # fitted on a DIFFERENT panel of the same lengths: the closed-form output is a
        # function of the panel being transformed (and of lengths / fitted intervals only)
        fitX = panel(dict(case, seed=case["seed"] + 3))[1]
    r = sut(lambda: t.fit(X if fitX is None else fitX, y))
    if isinstance(r, Raised):
        return r
    return sut(t.transform, X)


def nontrivial_panel(case):
    return case["c"] >= 2 or len(set(case["lengths"])) > 1


# ------------------------------------------------------------------ panel transformers
def o_pad(case, ctx):
    from sktime.transformations.panel.padder import PaddingTransformer

    cells, X = panel(case)
    L = max(case["lengths"])
    pl = case["pad_length"]
    fill = case["fill"]
    t = PaddingTransformer(pad_length=None if pl is None else L + pl, fill_value=fill)
    if case.get("via_set_params"):
        t = PaddingTransformer().set_params(pad_length=None if pl is None else L + pl, fill_value=fill)
    Lx = L if pl is None else L + pl
    ctx.mark_nontrivial(nontrivial_panel(case) or pl is not None or fill != 0)
    r = run(t, X, case=case)
    if isinstance(r, Raised):
        return [D("raised:pad:%s" % r.type, r.msg)]
    exp = [[np.concatenate([v, np.full(Lx - len(v), float(fill))]) for v in row] for row in cells]
    return cmp_cells(frame_cells(r), exp, "pad")


def o_trunc(case, ctx):
    from sktime.transformations.panel.truncation import TruncationTransformer

    cells, X = panel(case)
    m = min(case["lengths"])
    lo, up = case["lower"], case["upper"]
    if lo is not None:
        lo = min(lo, m - 1)
        up = None if up is None else min(max(up, lo + 1), m)
    else:
        up = None
    if case.get("via_set_params"):
        t = TruncationTransformer().set_params(lower=lo, upper=up)
    else:
        t = TruncationTransformer(lower=lo, upper=up)
    ctx.mark_nontrivial(nontrivial_panel(case) or lo is not None)
    over = case.get("over") or 0
    if over and lo is not None and up is not None:
        # a requested range that ends beyond the shortest series: either the panel is refused or
        # every cell has exactly the requested number of values - never silently fewer
        t.set_params(upper=m + over)
        ctx.label("range_beyond_shortest_series")
        r = run(t, X, case=case)
        if isinstance(r, Raised):
            ctx.mark_rejected()
            return []
        lens = sorted({len(c) for row in frame_cells(r) for c in row})
        if lens != [m + over - lo]:
            return [D("length:trunc_beyond_series", "lower=%s upper=%s on series of lengths %s: cells of lengths %s returned" % (lo, m + over, sorted(set(case["lengths"])), lens))]
        return []
    r = run(t, X, case=case)
    if isinstance(r, Raised):
        return [D("raised:trunc:%s" % r.type, "lower=%s upper=%s: %s" % (lo, up, r.msg))]
    if lo is None:
        exp = [[v[:m] for v in row] for row in cells]
    elif up is None:
        exp = [[v[:lo] for v in row] for row in cells]
    else:
        exp = [[v[lo:up] for v in row] for row in cells]
    return cmp_cells(frame_cells(r), exp, "trunc")


def o_interp(case, ctx):
    from sktime.transformations.panel.interpolate import TSInterpolator

    cells, X = panel(case)
    L = case["length"]
    t = TSInterpolator(L)
    ctx.mark_nontrivial(nontrivial_panel(case) or True)
    r = run(t, X, case=case)
    if isinstance(r, Raised):
        return [D("raised:interp:%s" % r.type, r.msg)]
    exp = [[np.interp(np.linspace(0, 1, L), np.linspace(0, 1, len(v)), v) for v in row] for row in cells]
    return cmp_cells(frame_cells(r), exp, "interp", exact=False)


def o_tab(case, ctx):
    from sktime.transformations.panel.reduce import Tabularizer

    cells, X = panel(case)
    ctx.mark_nontrivial(case["c"] >= 2)
    r = run(Tabularizer(), X, case=case)
    if isinstance(r, Raised):
        return [D("raised:tab:%s" % r.type, r.msg)]
    exp = np.array([np.concatenate(row) for row in cells])
    got = np.asarray(r, dtype=float)
    if got.shape != exp.shape or not np.array_equal(got, exp):
        return [D("values:tab", "got %s expected %s" % (got.tolist(), exp.tolist()))]
    return []


def o_cc(case, ctx):
    from sktime.transformations.panel.compose import ColumnConcatenator

    cells, X = panel(case)
    ctx.mark_nontrivial(case["c"] >= 2)
    r = run(ColumnConcatenator(), X, case=case)
    if isinstance(r, Raised):
        return [D("raised:cc:%s" % r.type, r.msg)]
    exp = [[np.concatenate(row)] for row in cells]
    return cmp_cells(frame_cells(r), exp, "cc")


def paa_ref(v, m):
    n = len(v)
    fl = Fraction(n, m)
    out = []
    for k in range(m):
        a, b = k * fl, (k + 1) * fl
        s = Fraction(0)
        for tt in range(n):
            ov = min(b, Fraction(tt + 1)) - max(a, Fraction(tt))
            if ov > 0:
                s += ov * Fraction(float(v[tt]))
        out.append(float(s / fl))
    return np.array(out)


def o_paa(case, ctx):
    from sktime.transformations.panel.dictionary_based import PAA

    cells, X = panel(case)
    n_t = case["lengths"][0]
    m = max(1, min(case["num_intervals"], n_t))
    ctx.mark_nontrivial(n_t % m != 0 or case["c"] >= 2)
    if n_t % m != 0:
        ctx.label("fractional_frames")
    r = run(PAA(num_intervals=m), X, case=case)
    if isinstance(r, Raised):
        return [D("raised:paa:%s" % r.type, "n=%d m=%d: %s" % (n_t, m, r.msg))]
    exp = [[paa_ref(v, m) for v in row] for row in cells]
    d = cmp_cells(frame_cells(r), exp, "paa", exact=False)
    if d:
        d[0]["detail"] = "n=%d m=%d %s" % (n_t, m, d[0]["detail"])
    return d


def o_iseg(case, ctx):
    from sktime.transformations.panel.segment import IntervalSegmenter

    cells, X = panel(case)
    n_t = case["lengths"][0]
    if case["intervals_kind"] == "int":
        k = max(1, min(case["k"], n_t // 2))
        arg = k
        pieces = [(int(p[0]), int(p[-1]) + 1) for p in np.array_split(np.arange(n_t), k)]
        ctx.mark_nontrivial(n_t % k != 0 or True)
    else:
        rng = np.random.RandomState(case["seed"] % 1000 + 7)
        pieces = []
        for _ in range(1 + case["k"] % 3):
            s = int(rng.randint(0, n_t - 1))
            e = int(rng.randint(s + 1, n_t + 1))
            pieces.append((s, e))
        arg = np.array(pieces)
        ctx.mark_nontrivial(True)
    r = run(IntervalSegmenter(arg), X, case=case)
    if isinstance(r, Raised):
        return [D("raised:iseg:%s" % r.type, "intervals=%r: %s" % (arg, r.msg))]
    exp = [[row[0][s:e] for (s, e) in pieces] for row in cells]
    d = cmp_cells(frame_cells(r), exp, "iseg_%s" % case["intervals_kind"])
    if d:
        d[0]["detail"] = "n=%d intervals=%s %s" % (n_t, pieces, d[0]["detail"])
    return d


def o_riseg(case, ctx):
    from sktime.transformations.panel.segment import RandomIntervalSegmenter

    cells, X = panel(case)
    t = RandomIntervalSegmenter(n_intervals=case["k"], random_state=case["seed"] % 1000)
    ctx.mark_nontrivial(True)
    r = run(t, X, case=case)
    if isinstance(r, Raised):
        return [D("raised:riseg:%s" % r.type, r.msg)]
    iv = [(int(s), int(e)) for s, e in t.intervals_]
    n_t = case["lengths"][0]
    if any(not (0 <= s < e <= n_t) for s, e in iv):
        return [D("riseg_intervals_outside_series", "intervals %s length %d" % (iv, n_t))]
    exp = [[row[0][s:e] for (s, e) in iv] for row in cells]
    return cmp_cells(frame_cells(r), exp, "riseg")


def o_swseg(case, ctx):
    from sktime.transformations.panel.segment import SlidingWindowSegmenter

    cells, X = panel(case)
    w = case["window_length"]
    ctx.mark_nontrivial(w != 5)
    r = run(SlidingWindowSegmenter(w), X, case=case)
    if isinstance(r, Raised):
        return [D("raised:swseg:%s" % r.type, r.msg)]
    h = w // 2
    exp = []
    for row in cells:
        v = row[0]
        p = np.concatenate([np.full(h, v[0]), v, np.full(h, v[-1])])
        exp.append([p[j: j + w] for j in range(len(v))])
    return cmp_cells(frame_cells(r), exp, "swseg")


def _slope(x):
    tt = np.arange(len(x), dtype=float)
    tt = tt - tt.mean()
    den = np.sum(tt ** 2)
    return float(np.sum(tt * (x - x.mean())) / den) if den > 0 else 0.0


def value_range(x):
    """A user feature without an ``axis`` argument."""
    return float(np.max(x) - np.min(x))


def last_minus_first(x):
    return float(x[-1] - x[0])


def o_rife(case, ctx):
    from sktime.transformations.panel.summarize import RandomIntervalFeatureExtractor

    cells, X = panel(case)
    from sktime.utils.slope_and_trend import _slope as sk_slope

    feats = {"default": None, "mean_std": [np.mean, np.std], "mean_std_max": [np.mean, np.std, np.max],
             "user": [value_range, np.mean, last_minus_first],
             "mean_std_slope": [np.mean, np.std, sk_slope]}[case["features"]]  # the features of the time series forest
    kw = {"max_length": case["max_length"]} if case.get("max_length") else {}
    t = RandomIntervalFeatureExtractor(n_intervals=case["k"], features=feats, random_state=case["seed"] % 1000, **kw)
    ctx.mark_nontrivial(feats is not None)
    r = run(t, X, case=case)
    if isinstance(r, Raised):
        return [D("raised:rife:%s" % r.type, r.msg)]
    iv = [(int(s), int(e)) for s, e in t.intervals_]
    fl = [(_slope if f is sk_slope else f) for f in (feats or [np.mean])]  # the least-squares slope, written out above
    exp = np.array([[f(np.asarray(row[0][s:e], dtype=float)) for f in fl for (s, e) in iv] for row in cells], dtype=float)
    got = np.asarray(r, dtype=float)
    if kw:
        ctx.label("max_length=%d" % case["max_length"])
        if any(e - s > case["max_length"] for s, e in iv):
            return [D("interval_longer_than_max_length:rife", "max_length=%d intervals %s" % (case["max_length"], iv))]
    if any(e - s == 2 for s, e in iv):
        ctx.label("two_point_interval")
    if got.shape != exp.shape or not np.allclose(got, exp, rtol=1e-9, atol=1e-9 if case["features"] == "mean_std_slope" else 1e-12):
        return [D("values:rife", "intervals %s got %s expected %s" % (iv, got.tolist(), exp.tolist()))]
    return []


def o_rows(case, ctx):
    """Row-wise application of a wrapped series transformer."""
    from sktime.transformations.panel.compose import SeriesToPrimitivesRowTransformer, SeriesToSeriesRowTransformer
    from sktime.transformations.series.cos import CosineTransformer
    from sktime.transformations.series.summarize import MeanTransformer

    cells, X = panel(case)
    ctx.mark_nontrivial(case["c"] >= 2)
    discs = []
    r = run(SeriesToPrimitivesRowTransformer(MeanTransformer()), X, case=case)
    if isinstance(r, Raised):
        discs.append(D("raised:s2prow:%s" % r.type, r.msg))
    else:
        exp = np.array([[np.mean(v) for v in row] for row in cells])
        got = np.asarray(r, dtype=float)
        if got.shape != exp.shape or not np.allclose(got, exp, rtol=1e-12, atol=1e-12):
            discs.append(D("values:s2prow", "got %s expected %s" % (got.tolist(), exp.tolist())))
    r = run(SeriesToSeriesRowTransformer(CosineTransformer()), X, case=case)
    if isinstance(r, Raised):
        discs.append(D("raised:s2srow:%s" % r.type, r.msg))
    else:
        discs += cmp_cells(frame_cells(r), [[np.cos(v) for v in row] for row in cells], "s2srow", exact=False)
    return discs


def o_rowcount(case, ctx):
    """Row count / order for transformers whose formula the property does not state."""
    from sktime.transformations.panel.dwt import DWTTransformer
    from sktime.transformations.panel.hog1d import HOG1DTransformer
    from sktime.transformations.panel.slope import SlopeTransformer
    from sktime.transformations.panel.summarize import DerivativeSlopeTransformer

    cells, X = panel(case)
    n = case["n"]
    ctx.mark_nontrivial(n >= 2)
    discs = []
    perm = list(reversed(range(n)))
    for name, t in (("slope", SlopeTransformer(2)), ("dslope", DerivativeSlopeTransformer()), ("dwt", DWTTransformer()),
                    ("hog", HOG1DTransformer(num_intervals=2, num_bins=4))):
        r = run(t, X, case=case)
        if isinstance(r, Raised):
            discs.append(D("raised:%s:%s" % (name, r.type), r.msg))
            continue
        if r.shape[0] != n:
            discs.append(D("row_count:%s" % name, "%d rows for %d instances" % (r.shape[0], n)))
            continue
        Xp = X.iloc[perm].reset_index(drop=True) if isinstance(X, pd.DataFrame) else X[perm]
        r2 = sut(t.transform, Xp)
        if isinstance(r2, Raised):
            discs.append(D("raised:%s:%s" % (name, r2.type), "permuted: " + r2.msg))
            continue
        d = cmp_cells(frame_cells(r2), [frame_cells(r)[i] for i in perm], "order_%s" % name, exact=False)
        discs += d
    return discs


# ------------------------------------------------------------------ single series
def series_with_gaps(case):
    n = case["n"]
    rng = np.random.RandomState(case["seed"] % (2 ** 31 - 1))
    v = np.round(rng.normal(size=n).cumsum() * 3 + 10, 4)
    for i in case["gaps"]:
        v[i % n] = np.nan
    if np.all(np.isnan(v)):
        v[n // 2] = 1.5
    if case.get("lead_gap"):
        v[0] = np.nan
    if case.get("trail_gap"):
        v[-1] = np.nan
    if np.sum(~np.isnan(v)) < 2:
        v[1] = 2.5
        v[-2] = 3.5
    return v


def impute_ref(v, method, value=None):
    v = v.copy()
    nanm = np.isnan(v)
    idx = np.arange(len(v))
    valid = idx[~nanm]

    def edge_fill(x):
        s = pd.Series(x).ffill().bfill()
        return s.to_numpy()

    if method in ("mean", "median"):
        f = np.nanmean(v) if method == "mean" else np.nanmedian(v)
        v[nanm] = f
        return [v]
    if method == "constant":
        v[nanm] = value
        return [v]
    if method in ("ffill", "pad"):
        out = v.copy()
        for i in idx:
            if np.isnan(out[i]) and i > 0:
                out[i] = out[i - 1]
        return [edge_fill(out)]
    if method in ("bfill", "backfill"):
        out = v.copy()
        for i in idx[::-1]:
            if np.isnan(out[i]) and i < len(v) - 1:
                out[i] = out[i + 1]
        return [edge_fill(out)]
    if method == "linear":
        return [np.interp(idx, valid, v[valid])]
    if method == "nearest":
        lo, hi = v.copy(), v.copy()
        for i in idx[nanm]:
            d = np.abs(valid - i)
            if i < valid[0] or i > valid[-1]:
                lo[i] = hi[i] = v[valid[np.argmin(d)]]
                continue
            c = valid[d == d.min()]
            lo[i], hi[i] = v[c[0]], v[c[-1]]
        return [lo, hi]
    if method == "drift":
        filled = edge_fill(pd.Series(v).ffill().to_numpy())
        A = np.column_stack([np.ones(len(v)), idx.astype(float)])
        coef, *_ = np.linalg.lstsq(A, filled, rcond=None)
        out = v.copy()
        out[nanm] = (A @ coef)[nanm]
        return [out]
    raise ValueError(method)


def o_imputer(case, ctx):
    from sktime.transformations.series.impute import Imputer

    v = series_with_gaps(case)
    z = gen.build_series(v, case["start"], case["index_kind"])
    m = case["method"]
    val = 7.25 if m == "constant" else None
    ph = case.get("placeholder")
    if ph is not None:
        # the gaps are marked by a placeholder value instead of NaN: same result
        z = z.fillna(ph)
        ctx.label("placeholder_marks_gaps")
    t = Imputer(method=m, value=val, missing_values=ph)
    edge = bool(np.isnan(v[0]) or np.isnan(v[-1]))
    ctx.label(m)
    ctx.mark_nontrivial(edge or case["start"] != 0)
    r = sut(lambda: t.fit(z.copy()).transform(z.copy()))
    if isinstance(r, Raised):
        return [D("raised:imputer_%s:%s@%s" % (m, r.type, r.where), "start=%d values=%s: %s" % (case["start"], v.tolist(), r.msg))]
    if not isinstance(r, pd.Series) or list(r.index) != list(z.index):
        return [D("index:imputer_%s" % m, "index %s expected %s" % (list(getattr(r, "index", [])), list(z.index)))]
    got = r.to_numpy(dtype=float)
    if np.isnan(got).any():
        return [D("imputer_leaves_gaps:%s" % m, "values=%s -> %s" % (v.tolist(), got.tolist()))]
    if not np.array_equal(got[~np.isnan(v)], v[~np.isnan(v)]):
        return [D("imputer_changes_observed:%s" % m, "values=%s -> %s" % (v.tolist(), got.tolist()))]
    refs = impute_ref(v, m, val)
    if len(refs) == 1:
        ok = np.allclose(got, refs[0], rtol=1e-9, atol=1e-9)
    else:
        ok = bool(np.all(np.isclose(got, refs[0], rtol=1e-9, atol=1e-9) | np.isclose(got, refs[1], rtol=1e-9, atol=1e-9)))
    if not ok:
        return [D("values:imputer_%s" % m, "values=%s: got %s expected %s" % (v.tolist(), got.tolist(), refs[0].tolist()))]
    return []


def o_series_misc(case, ctx):
    from sklearn.preprocessing import MinMaxScaler, StandardScaler

    from sktime.transformations.series.acf import AutoCorrelationTransformer
    from sktime.transformations.series.adapt import TabularToSeriesAdaptor
    from sktime.transformations.series.cos import CosineTransformer
    from sktime.transformations.series.summarize import MeanTransformer

    n = case["n"]
    rng = np.random.RandomState(case["seed"] % (2 ** 31 - 1))
    v = np.round(rng.normal(size=n).cumsum() * 2 + 5, 4)
    v[0] += 0.37
    z = gen.build_series(v, case["start"], case["index_kind"])
    ctx.mark_nontrivial(case["start"] != 0)
    discs = []
    r = sut(lambda: CosineTransformer().fit(z.copy()).transform(z.copy()))
    if isinstance(r, Raised) or list(r.index) != list(z.index) or not np.allclose(r.to_numpy(), np.cos(v), rtol=1e-12, atol=0):
        discs.append(D("values:cos", repr(r)[:200]))
    r = sut(lambda: MeanTransformer().fit(z.copy()).transform(z.copy()))
    if isinstance(r, Raised) or not np.isclose(float(r), float(np.mean(v)), rtol=1e-12, atol=0):
        discs.append(D("values:mean", repr(r)[:200]))
    k = min(case["n_lags"], n - 2)
    r = sut(lambda: AutoCorrelationTransformer(n_lags=k).fit(z.copy()).transform(z.copy()))
    m = v.mean()
    den = np.sum((v - m) ** 2)
    exp = np.array([np.sum((v[j:] - m) * (v[: n - j] - m)) / den for j in range(k + 1)])
    if isinstance(r, Raised) or len(r) != k + 1 or not np.allclose(np.asarray(r, dtype=float), exp, rtol=1e-9, atol=1e-12):
        discs.append(D("values:acf", "n_lags=%d start=%d: got %s expected %s" % (k, case["start"], repr(r)[:200], exp.tolist())))
    for nm, sc in (("standard", StandardScaler()), ("minmax", MinMaxScaler())):
        cols = 1 + case["seed"] % 2
        Z = z if cols == 1 else pd.DataFrame({"a": v, "b": v[::-1] * 2.0 + 1.0}, index=z.index)
        t = TabularToSeriesAdaptor(sc)
        r = sut(lambda: t.fit(Z.copy()).transform(Z.copy()))
        arr = np.asarray(Z, dtype=float).reshape(n, -1)
        if nm == "standard":
            sd = arr.std(axis=0)
            exp2 = (arr - arr.mean(axis=0)) / np.where(sd == 0, 1, sd)
        else:
            rg = arr.max(axis=0) - arr.min(axis=0)
            exp2 = (arr - arr.min(axis=0)) / np.where(rg == 0, 1, rg)
        if isinstance(r, Raised) or list(r.index) != list(Z.index) or not np.allclose(np.asarray(r, dtype=float).reshape(n, -1), exp2, rtol=1e-9, atol=1e-12):
            discs.append(D("values:adaptor_%s" % nm, repr(r)[:200]))
            continue
        # applied to ANOTHER series the adaptor uses the statistics of the series it was fitted
        # on (column-wise application of the wrapped, fitted tabular transformer), and so does
        # the inverse afterwards
        m2 = 5
        w = np.round(np.linspace(-3.0, 40.0, m2) + 0.5 * np.arange(m2) ** 2, 4)
        Z2 = gen.build_series(w, int(z.index[-1]) + 1, case["index_kind"])
        if cols == 2:
            Z2 = pd.DataFrame({"a": w, "b": w * 0.5 - 7.0}, index=Z2.index)
        arr2 = np.asarray(Z2, dtype=float).reshape(m2, -1)
        if nm == "standard":
            exp3 = (arr2 - arr.mean(axis=0)) / np.where(sd == 0, 1, sd)
        else:
            exp3 = (arr2 - arr.min(axis=0)) / np.where(rg == 0, 1, rg)
        r2 = sut(t.transform, Z2.copy())
        if isinstance(r2, Raised) or list(r2.index) != list(Z2.index) or not np.allclose(np.asarray(r2, dtype=float).reshape(m2, -1), exp3, rtol=1e-9, atol=1e-12):
            discs.append(D("values:adaptor_%s_other_series" % nm, "fitted on %d points, applied to %s: got %s expected %s"
                           % (n, w.tolist(), repr(r2)[:160], exp3.ravel().tolist())))
            continue
        b = sut(t.inverse_transform, r.copy())
        if isinstance(b, Raised) or not np.allclose(np.asarray(b, dtype=float).reshape(n, -1), arr, rtol=1e-9, atol=1e-9):
            discs.append(D("values:adaptor_%s_inverse_after_other_series" % nm, repr(b)[:200]))
    return discs


def o_slope(case, ctx):
    """SlopeTransformer: the series is cut into num_intervals frames of (fractional) length
    L / num_intervals, frame i = positions [int(i L / k), int((i + 1) L / k)); each value is the
    total-least-squares gradient of its frame against 1..m. The reference takes the gradient from
    the principal axis of the frame's scatter matrix. (k is a power of two, so that the frame
    boundaries are exact in binary floating point.)"""
    from sktime.transformations.panel.slope import SlopeTransformer

    cells, X = panel(case)
    k = case["num_intervals"]
    t = SlopeTransformer(num_intervals=k)
    L = case["lengths"][0]
    ctx.label("length_multiple_of_intervals" if L % k == 0 else "fractional_frames")
    ctx.mark_nontrivial(L % k != 0)
    r = run(t, X, case=case)
    if isinstance(r, Raised):
        return [D("raised:slope:%s" % r.type, "L=%d num_intervals=%d: %s" % (L, k, r.msg))]

    def tls(v):
        m = len(v)
        if m < 2:
            return 0.0
        x = np.arange(1, m + 1, dtype=float)
        dx, dy = x - x.mean(), np.asarray(v, dtype=float) - np.mean(v)
        sxy = float(dx @ dy)
        if sxy == 0.0:
            return 0.0
        if abs(sxy) < 1e-9 * math.sqrt(float(dx @ dx) * float(dy @ dy)):
            return float("nan")  # no linear association up to rounding: the gradient is not pinned down
        S = np.array([[dx @ dx, sxy], [sxy, dy @ dy]])
        w, V = np.linalg.eigh(S)
        vx, vy = V[:, int(np.argmax(w))]
        return float(vy / vx)

    exp = []
    for row in cells:
        out_row = []
        for v in row:
            out_row.append(np.array([tls(v[int(i * L / k): int((i + 1) * L / k)]) for i in range(k)]))
        exp.append(out_row)
    # (the documented formula (w + sqrt(w^2 + r^2)) / r cancels for nearly flat frames: the
    # comparison allows for a relative rounding error of 1e-5)
    got = frame_cells(r)
    d = cmp_cells([[np.zeros_like(c) for c in row] for row in got], [[np.zeros_like(c) for c in row] for row in exp], "slope")
    if d:
        return d
    for i, (rg, re_) in enumerate(zip(got, exp)):
        for j, (a, b) in enumerate(zip(rg, re_)):
            ok = ~np.isnan(b)
            if ok.any() and not np.allclose(a[ok], b[ok], rtol=1e-5, atol=1e-7 * max(1.0, float(np.max(np.abs(b[ok]))))):
                return [D("values:slope", "L=%d num_intervals=%d instance %d col %d: got %s expected %s" % (L, k, i, j, a.tolist(), b.tolist()))]
    return []


# ------------------------------------------------------------------ strategies
@st.composite
def panel_cases(draw, unequal=False, max_c=3, min_len=2, extra=None):
    n = draw(st.integers(1, 6))
    c = draw(st.integers(1, max_c))
    if unequal and draw(st.booleans()):
        lens = [draw(st.integers(min_len, 30)) for _ in range(n)]
        cont = "nested"
    else:
        lens = [draw(st.integers(min_len, 30))] * n
        cont = draw(st.sampled_from(["nested", "numpy3d"]))
    case = {"n": n, "c": c, "lengths": lens, "container": cont, "seed": draw(st.integers(0, 10 ** 6)),
            "scale": draw(st.sampled_from([1.0, 0.01, 100.0]))}
    for k, s in (extra or {}).items():
        case[k] = draw(s)
    case["prefit"] = draw(st.sampled_from([None, None, -3, -1, 2, 5]))
    case["int_cells"] = draw(st.integers(0, 4)) == 0
    case["fit_other"] = draw(st.integers(0, 2)) == 0
    case["cell_origin"] = draw(st.sampled_from([0, 0, 1, 7, 100]))
    case["col_names"] = draw(st.sampled_from([None, None, "unsorted", "ints_reversed"]))
    return case


@st.composite
def imputer_cases(draw):
    n = draw(st.integers(4, 20))
    return {"n": n, "seed": draw(st.integers(0, 10 ** 6)), "gaps": draw(st.lists(st.integers(0, 40), max_size=6)),
            "lead_gap": draw(st.booleans()), "trail_gap": draw(st.booleans()),
            "method": draw(st.sampled_from(["mean", "median", "constant", "ffill", "pad", "bfill", "backfill", "linear", "nearest", "drift"])),
            "start": draw(gen.index_start), "index_kind": draw(gen.index_kind),
            "placeholder": draw(st.sampled_from([None, None, -999.0, -12345.5]))}


def subchecks():
    i = st.integers
    S = lambda name, orc, strat, q=300: SubCheck(name, orc, strat, quick=q, thorough=q * 20, shards_quick=1, shards_thorough=4)  # noqa: E731
    return [
        S("padding", o_pad, panel_cases(unequal=True, extra={"pad_length": st.one_of(st.none(), i(0, 6)), "fill": st.sampled_from([0, 0, -1, 3.5]), "via_set_params": st.booleans()})),
        S("slope_gradients", o_slope, panel_cases(unequal=False, min_len=8, extra={"num_intervals": st.sampled_from([2, 4, 8])})),
        S("truncation", o_trunc, panel_cases(unequal=True, min_len=3, extra={"lower": st.one_of(st.none(), i(0, 10)), "upper": st.one_of(st.none(), i(1, 20)), "via_set_params": st.booleans(), "over": st.sampled_from([0, 0, 0, 1, 3])})),
        S("interpolation", o_interp, panel_cases(unequal=True, extra={"length": i(1, 25)})),
        S("tabularizer", o_tab, panel_cases()),
        S("column_concatenator", o_cc, panel_cases()),
        S("paa", o_paa, panel_cases(extra={"num_intervals": i(1, 12), "col_len_step": st.sampled_from([0, 0, 3, 4])}), q=500),
        S("interval_segmenter", o_iseg, panel_cases(max_c=1, min_len=4, extra={"intervals_kind": st.sampled_from(["int", "array"]), "k": i(1, 6)})),
        S("random_interval_segmenter", o_riseg, panel_cases(max_c=1, min_len=4, extra={"k": i(1, 4)})),
        S("sliding_window_segmenter", o_swseg, panel_cases(max_c=1, extra={"window_length": i(1, 8)})),
        S("random_interval_features", o_rife, panel_cases(max_c=1, min_len=4, extra={"k": i(1, 4), "features": st.sampled_from(["default", "mean_std", "mean_std_max", "user", "user", "mean_std_slope", "mean_std_slope"]),
                                                                                          "max_length": st.sampled_from([None, None, 3, 4, 6])})),
        S("row_transformers", o_rows, panel_cases()),
        S("row_count_and_order", o_rowcount, panel_cases(min_len=12), q=100),
        S("imputer", o_imputer, imputer_cases(), q=800),
        S("series_cos_mean_acf_adaptor", o_series_misc, st.fixed_dictionaries({"n": i(6, 30), "seed": i(0, 10 ** 6), "n_lags": i(1, 6), "start": gen.index_start, "index_kind": gen.index_kind})),
    ]


SELECTORS = {}

FUZZ = [("paa", 15000), ("interval_segmenter", 10000), ("sliding_window_segmenter", 10000), ("imputer", 15000)]
