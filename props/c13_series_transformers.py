"""C13 - series transformers: inverse, index, seasonal phase, shift (DESIGN 2/C13)."""
import numpy as np
import pandas as pd
from hypothesis import strategies as st

from harness import gen, panelpool, pools
from harness.runner import D, Raised, SubCheck, sut, unexpected

PROPERTY_ID = "C13"
LEVEL = "exploration"
RULE = (
    "generated positive training series on an arbitrary integer index, a second stretch whose "
    "start lies anywhere from 14 steps before the training range to 20 steps after it (offsets that are "
    "not multiples of the period included), optional update() calls in between, and every "
    "Box-Cox / log / detrend / (conditional) deseasonalise / tabular-adaptor / optional-passthrough / "
    "transformed-target-pipeline configuration. Oracles: inverse(transform(z2)) == z2 where finite, "
    "exact index preservation for tagged transformers, the seasonal component as a function of "
    "(t - t_train_start) mod sp, fit_transform == fit().transform(), and the index-shift "
    "metamorphic relation for every series transformer (incl. HampelFilter, Imputer, ACF/PACF, "
    "Cosine). non-trivial = stretch offset not a multiple of sp, or an update, or index origin "
    "!= 0; distinct = distinct JSON of the case"
)
ASSUMPTIONS = ["round trips compared with rtol 1e-7 where the transform is finite", "series values get a deterministic wiggle (never constant)"]


def series(case, key="values", start=None, n=None):
    vals = [v + ((i * 37) % 11) / 7.0 for i, v in enumerate(case[key])]
    if n is not None:
        vals = vals[:n]
    return gen.build_series(vals, case["start"] if start is None else start, case["index_kind"])


def stretch(case, z):
    """Second stretch z2: starts at offset `off` from the training start, length m."""
    off, m = case["off"], case["m"]
    s0 = int(z.index[0]) + off
    base = [17.0 + 3.0 * np.sin(0.9 * k) + 0.37 * k + ((k * 13) % 7) / 5.0 for k in range(m)]
    vals = []
    for k in range(m):
        lab = s0 + k
        if int(z.index[0]) <= lab <= int(z.index[-1]) and case["reuse_train_values"]:
            vals.append(float(z.loc[lab]))
        else:
            vals.append(base[k] + 5.0)
    z2 = gen.build_series(vals, s0, case["index_kind"])
    inc = case.get("stretch_steps")
    if inc:
        # time points with gaps between them (like the forecast of a gapped horizon)
        labs, cur = [], s0
        for k in range(m):
            labs.append(cur)
            cur += inc[k % len(inc)]
        z2 = pd.Series(z2.to_numpy(), index=pd.Index(np.array(labs, dtype="int64")))
    return z2


def build(spec):
    if spec["kind"] == "pipeline_as_transformer":
        return pools.build_forecaster({"kind": "pipeline", "transformers": spec["transformers"],
                                       "forecaster": {"kind": "naive", "strategy": "last", "sp": 1}})
    return panelpool.build_series_transformer(spec)


def fit(t, z, spec, case=None):
    if case is not None and case.get("prefit") is not None:
        # the same object was fitted before on another series (other origin, hence another
        # seasonal phase, other length and level): only the LAST fit counts
        n0 = len(z) + 3
        other = gen.build_series([9.0 + 2.5 * ((j * 7) % 5) + 0.31 * j for j in range(n0)], int(z.index[0]) + case["prefit"], case["index_kind"])
        alt = _other_params(spec) if case.get("prefit_other_params") else None
        try:
            if alt is not None:
                # ... and with other parameter values, changed through set_params before re-fitting
                t.set_params(**build(alt).get_params(deep=False))
            t.fit(other, fh=[1]) if spec["kind"] == "pipeline_as_transformer" else t.fit(other)
        except Exception:  # noqa: BLE001  (a refused earlier fit leaves a fresh object)
            pass
        if alt is not None:
            t.set_params(**build(spec).get_params(deep=False))
    if spec["kind"] == "pipeline_as_transformer":
        return t.fit(z.copy(), fh=[1])
    return t.fit(z.copy())


def _other_params(spec):
    """The same kind of transformer with other parameter values (None if it has none to vary)."""
    k = spec["kind"]
    if k == "passthrough":
        return dict(spec, passthrough=not spec["passthrough"])
    if k in ("deseason", "cond_deseason"):
        return dict(spec, sp=spec["sp"] + 1, model="additive" if spec["model"] == "multiplicative" else "multiplicative")
    if k == "detrend":
        return dict(spec, degree=(spec["degree"] + 1) % 3)
    if k == "boxcox":
        return dict(spec, method="mle" if spec.get("method") != "mle" else "pearsonr")
    if k == "scaler":
        return dict(spec, which="minmax" if spec.get("which", "standard") == "standard" else "standard")
    return None


def close(a, b, tol=1e-7):
    a, b = np.asarray(a, dtype=float), np.asarray(b, dtype=float)
    return a.shape == b.shape and np.allclose(a, b, rtol=tol, atol=tol * 1e-2, equal_nan=True)


def sp_of(spec):
    if spec["kind"] in ("deseason", "cond_deseason"):
        return spec["sp"]
    if spec["kind"] == "passthrough":
        return sp_of(spec["inner"])
    return 1


def do_updates(t, z, case, spec):
    """Apply update() calls with newer data; returns last label seen."""
    last = int(z.index[-1])
    for k in case["updates"]:
        zb = gen.build_series([21.0 + 0.5 * j + ((j * 7) % 5) / 3.0 for j in range(k)], last + 1, case["index_kind"])
        if hasattr(t, "update"):
            if case.get("update_params") is False:
                r = sut(t.update, zb.copy(), None, False)
            else:
                r = sut(t.update, zb.copy())
            if isinstance(r, Raised):
                return r
        last += k
    return last


def oracle_inverse(case, ctx):
    spec = case["spec"]
    z = series(case)
    t = build(spec)
    desc = spec["kind"] + ("(%s)" % "+".join(x["kind"] for x in spec["transformers"]) if "transformers" in spec else "")
    ctx.label(desc.split("(")[0])
    sp = sp_of(spec)
    ctx.mark_nontrivial((sp > 1 and case["off"] % sp != 0) or bool(case["updates"]) or case["start"] != 0)
    r = sut(fit, t, z, spec, case)
    if isinstance(r, Raised):
        # a transformer may refuse its training data (e.g. seasonality test); nothing to check then
        if r.is_a(ValueError) or ("boxcox" in desc and r.is_a(RuntimeError)):
            # includes scipy's optimiser giving up on degenerate data (BracketError)
            ctx.mark_rejected()
            return []
        return [unexpected(r, "fit %s" % desc)]
    discs = []
    if r is not t:
        discs.append(D("fit_not_self", desc))
    # fit_transform == fit().transform()
    t2 = build(spec)
    if spec["kind"] != "pipeline_as_transformer":
        a = sut(t2.fit_transform, z.copy())
        b = sut(t.transform, z.copy())
        if isinstance(a, Raised) or isinstance(b, Raised):
            discs.append(D("transform_raised:%s" % desc, "%r / %r" % (a, b)))
            return discs
        if list(a.index) != list(b.index) or not close(a, b, 1e-12):
            discs.append(D("fit_transform_differs:%s" % desc, "fit_transform %s vs fit().transform %s" % (np.asarray(a)[:4], np.asarray(b)[:4])))
        elif case.get("prefit") is not None:
            # ... also on an object that was fitted before, on another series
            t3 = build(spec)
            other = gen.build_series([9.0 + 2.5 * ((j * 7) % 5) + 0.31 * j for j in range(len(z) + 3)], int(z.index[0]) + case["prefit"], case["index_kind"])
            if not isinstance(sut(t3.fit, other), Raised):
                a3 = sut(t3.fit_transform, z.copy())
                ctx.label("fit_transform_on_fitted_object")
                if isinstance(a3, Raised) or list(a3.index) != list(b.index) or not close(a3, b, 1e-12):
                    discs.append(D("fit_transform_differs:%s" % desc, "on an object fitted before on another series: fit_transform %s vs fit().transform %s"
                                   % (a3 if isinstance(a3, Raised) else np.asarray(a3)[:4], np.asarray(b)[:4])))
    # another transformer of the same configuration is fitted on an unrelated series in the
    # meantime (two series handled side by side): objects do not share fitted state
    sib = build(spec)
    unrelated = gen.build_series([400.0 - 7.5 * j + 3.0 * ((j * 5) % 7) for j in range(len(z) + 2)], int(z.index[0]) + 1, case["index_kind"])
    t_before = sut(t.transform, z.copy())
    sut(lambda: sib.fit(unrelated, fh=[1]) if spec["kind"] == "pipeline_as_transformer" else sib.fit(unrelated))
    t_after = sut(t.transform, z.copy())
    if isinstance(t_before, pd.Series) and not (isinstance(t_after, pd.Series) and list(t_after.index) == list(t_before.index) and close(t_after, t_before, 1e-12)):
        discs.append(D("transform_changed_by_fitting_another_object:%s" % desc, "before %s after %s" % (
            np.asarray(t_before)[:4], t_after if isinstance(t_after, Raised) else np.asarray(t_after)[:4])))
        return discs
    frozen = case.get("update_params") is False and bool(case["updates"]) and hasattr(t, "update") and spec["kind"] != "pipeline_as_transformer"
    before = sut(t.transform, z.copy()) if frozen else None
    u = do_updates(t, z, case, spec)
    if isinstance(u, Raised):
        return discs + [D("update_raised:%s:%s" % (desc, u.type), u.msg)]
    if frozen and not isinstance(before, Raised):
        # update(..., update_params=False) only takes note of the new data: what the
        # transformer does to a given series is the same before and after
        after = sut(t.transform, z.copy())
        ctx.label("update_without_parameter_update")
        if isinstance(after, Raised) or not close(before, after, 1e-12):
            discs.append(D("update_params_false_changes_transform:%s" % desc, "transform(train) before %s after %s"
                           % (np.asarray(before, dtype=float)[:4].tolist(), after if isinstance(after, Raised) else np.asarray(after, dtype=float)[:4].tolist())))
            return discs
    for name, zz in (("train", z), ("stretch", stretch(case, z))):
        zt = sut(t.transform, zz.copy())
        if isinstance(zt, Raised):
            discs.append(D("transform_raised:%s" % desc, "%s: %r" % (name, zt)))
            continue
        if not isinstance(zt, (pd.Series, pd.DataFrame)):
            discs.append(D("transform_type:%s" % desc, type(zt).__name__))
            continue
        if [int(i) for i in zt.index] != [int(i) for i in zz.index]:
            discs.append(D("index_not_preserved:%s" % desc, "%s: %s vs %s" % (name, list(zt.index)[:5], list(zz.index)[:5])))
            continue
        back = sut(t.inverse_transform, zt.copy())
        if isinstance(back, Raised):
            discs.append(D("inverse_raised:%s:%s" % (desc, back.type), "%s: %s" % (name, back.msg)))
            continue
        if [int(i) for i in back.index] != [int(i) for i in zz.index]:
            discs.append(D("inverse_index:%s" % desc, "%s: %s vs %s" % (name, list(back.index)[:5], list(zz.index)[:5])))
            continue
        fin = np.isfinite(np.asarray(zt, dtype=float))
        if not close(np.asarray(back, dtype=float)[fin], np.asarray(zz, dtype=float)[fin]):
            discs.append(D("inverse_roundtrip:%s" % desc, "%s off=%d: inverse(transform(z)) %s vs z %s"
                           % (name, case["off"], np.asarray(back, dtype=float)[:5].tolist(), np.asarray(zz, dtype=float)[:5].tolist())))
    return discs


def oracle_phase(case, ctx):
    """The seasonal component depends only on (t - t_train_start) mod sp."""
    spec = case["spec"]
    sp, model = spec["sp"], spec["model"]
    z = series(case)
    t = build(spec)
    ctx.mark_nontrivial(case["off"] % sp != 0 or bool(case["updates"]))
    if case["off"] % sp != 0:
        ctx.label("off_phase")
    if case["off"] < 0:
        ctx.label("stretch_starts_before_training")
    if case["m"] % sp != 0:
        ctx.label("length_not_multiple_of_sp")
    r = sut(fit, t, z, spec, case)
    if isinstance(r, Raised):
        if r.is_a(ValueError):
            ctx.mark_rejected()
            return []
        return [unexpected(r, "fit")]
    zt = sut(t.transform, z.copy())
    if isinstance(zt, Raised):
        return [unexpected(zt, "transform(train)")]
    comp = (z - zt) if model == "additive" else (z / zt)
    comp = np.asarray(comp, dtype=float)
    # on the training series itself the component must already be periodic
    base = comp[:sp]
    discs = []
    for i in range(len(comp)):
        if not np.isclose(comp[i], base[i % sp], rtol=1e-9, atol=1e-9):
            discs.append(D("component_not_periodic_on_training_series", "sp=%d i=%d: %r vs %r" % (sp, i, comp[i], base[i % sp])))
            return discs
    # ... and is the seasonal component of the classical decomposition of the training series
    # (computed here with statsmodels directly), position by position
    if spec["kind"] == "deseason" or getattr(t, "is_seasonal_", False):
        from statsmodels.tsa.seasonal import seasonal_decompose

        ref = sut(lambda: np.asarray(seasonal_decompose(pd.Series(np.asarray(z, dtype=float)), model=model, period=sp, filt=None, two_sided=True,
                                                        extrapolate_trend=0).seasonal, dtype=float))
        if not isinstance(ref, Raised) and len(ref) == len(comp) and np.all(np.isfinite(ref)):
            ctx.label("component_compared_with_decomposition")
            if not np.allclose(comp, ref, rtol=1e-8, atol=1e-8):
                bad = int(np.argmax(~np.isclose(comp, ref, rtol=1e-8, atol=1e-8)))
                return [D("component_is_not_the_decomposition", "sp=%d model=%s: training position %d removed %r, seasonal component of the decomposition %r"
                          % (sp, model, bad, comp[bad], ref[bad]))]
    u = do_updates(t, z, case, spec)
    if isinstance(u, Raised):
        return [D("update_raised:%s" % u.type, u.msg)]
    z2 = stretch(case, z)
    for what, fn in (("transform", t.transform), ("inverse_transform", t.inverse_transform)):
        out = sut(fn, z2.copy())
        if isinstance(out, Raised):
            discs.append(unexpected(out, what))
            continue
        if [int(i) for i in out.index] != [int(i) for i in z2.index]:
            discs.append(D("index_not_preserved:%s" % what, ""))
            continue
        a, b = np.asarray(z2, dtype=float), np.asarray(out, dtype=float)
        if what == "transform":
            c2 = (a - b) if model == "additive" else (a / b)
        else:
            c2 = (b - a) if model == "additive" else (b / a)
        want = np.array([base[(int(lab) - int(z.index[0])) % sp] for lab in z2.index])
        if not np.allclose(c2, want, rtol=1e-8, atol=1e-8):
            bad = int(np.argmax(~np.isclose(c2, want, rtol=1e-8, atol=1e-8)))
            discs.append(D("seasonal_phase:%s" % what, "sp=%d model=%s off=%d len=%d updates=%s: position %d removed %r, fitted component for that phase %r"
                           % (sp, model, case["off"], len(z2), case["updates"], bad, c2[bad], want[bad])))
    return discs


def _run_shift(spec, z, case=None):
    t = build(spec)
    r = sut(fit, t, z, spec, case)
    if isinstance(r, Raised):
        return r
    return sut(t.transform, z.copy())


def oracle_shift(case, ctx):
    spec = case["spec"]
    k = case["shift"]
    z = series(case)
    if spec["kind"] in ("imputer", "hampel"):
        v = z.to_numpy().copy()
        for i in case["gaps"]:
            if spec["kind"] == "imputer":
                v[1 + i % (len(v) - 2)] = np.nan
            else:
                v[1 + i % (len(v) - 2)] += 500.0  # outlier
        z = pd.Series(v, index=z.index)
    z2 = pd.Series(z.to_numpy().copy(), index=gen.int_index(int(z.index[0]) + k, len(z), case["index_kind"]))
    ctx.label(spec["kind"])
    ctx.mark_nontrivial(case["start"] != 0 or True)
    a = _run_shift(spec, z, case)
    b = _run_shift(spec, z2, case)
    if spec["kind"] == "boxcox" and (isinstance(a, Raised) or isinstance(b, Raised)) and not (
            isinstance(a, Raised) and isinstance(b, Raised)):
        ctx.mark_rejected()
        return []
    if isinstance(a, Raised) and isinstance(b, Raised):
        ctx.mark_rejected()
        return []
    if isinstance(a, Raised) or isinstance(b, Raised):
        bad = a if isinstance(a, Raised) else b
        return [D("shift_changes_outcome:%s:%s@%s" % (spec["kind"], bad.type, bad.where),
                  "start=%d shift=%d: one run raised %s: %s" % (case["start"], k, bad.type, bad.msg))]
    va, vb = np.asarray(a, dtype=float), np.asarray(b, dtype=float)
    if va.shape != vb.shape or not np.allclose(va, vb, rtol=1e-9, atol=1e-9, equal_nan=True):
        return [D("shift_changes_values:%s" % spec["kind"], "start=%d shift=%d: %s vs %s" % (case["start"], k, va.ravel()[:6].tolist(), vb.ravel()[:6].tolist()))]
    if hasattr(a, "index") and len(a) == len(z) and spec["kind"] not in ("acf", "pacf"):
        if [int(i) + k for i in a.index] != [int(i) for i in b.index]:
            return [D("shift_index:%s" % spec["kind"], "%s vs %s" % (list(a.index)[:4], list(b.index)[:4]))]
    return []


# ------------------------------------------------------------------ strategies
def invertible_specs():
    return st.one_of(
        st.builds(lambda m, b: {"kind": "boxcox", "method": m, "bounds": b}, st.sampled_from(["mle", "pearsonr"]),
                  # (narrow bounds pin the fitted lambda next to the log limit 0, to 1 and to -1)
                  st.sampled_from([None, [-2.0, 2.0], [0.0, 1.0], [-0.04, 0.04], [0.0, 0.03], [-0.001, 0.0], [0.96, 1.04], [-1.03, -0.97]])),
        st.just({"kind": "log"}),
        st.builds(lambda d: {"kind": "detrend", "degree": d}, st.integers(0, 3)),
        st.builds(lambda sp, m: {"kind": "deseason", "sp": sp, "model": m}, st.integers(1, 8), st.sampled_from(["additive", "multiplicative"])),
        st.builds(lambda sp, m: {"kind": "cond_deseason", "sp": sp, "model": m}, st.integers(2, 8), st.sampled_from(["additive", "multiplicative"])),
        st.builds(lambda w: {"kind": "scaler", "which": w}, st.sampled_from(["standard", "minmax"])),
        st.builds(lambda p, inner: {"kind": "passthrough", "inner": inner, "passthrough": p}, st.booleans(),
                  st.sampled_from([{"kind": "log"}, {"kind": "deseason", "sp": 3, "model": "additive"}, {"kind": "detrend", "degree": 1}])),
        st.builds(lambda ts: {"kind": "pipeline_as_transformer", "transformers": ts}, pools.transformer_chains(3, allow_boxcox=True)),
    )


@st.composite
def base_case(draw, spec_strategy):
    spec = draw(spec_strategy)
    sp = 1
    for s in [spec] + spec.get("transformers", []) + ([spec["inner"]] if "inner" in spec else []):
        if s.get("kind") in ("deseason", "cond_deseason"):
            sp = max(sp, s["sp"])
    n = draw(st.integers(max(12, 3 * sp), max(12, 3 * sp) + 20))
    return {
        "spec": spec, "values": draw(gen.series_values(n, n, lo=5.0, hi=200.0)),
        "start": draw(gen.index_start), "index_kind": draw(gen.index_kind),
        # the stretch may also start before the training series (overlapping it or not)
        "off": draw(st.one_of(st.integers(0, n + 20), st.integers(0, n + 20), st.integers(-14, -1))), "m": draw(st.integers(2, 20)),
        "reuse_train_values": draw(st.booleans()),
        "stretch_steps": draw(st.one_of(st.none(), st.none(), st.lists(st.integers(1, 4), min_size=1, max_size=4))),
        "prefit": draw(st.sampled_from([None, None, None, -5, 1, 2, 7])), "prefit_other_params": draw(st.booleans()),
        "updates": draw(st.lists(st.integers(1, 7), max_size=2)), "update_params": draw(st.sampled_from([True, True, False])),
    }


@st.composite
def shift_cases(draw):
    c = draw(base_case(panelpool.series_transformer_specs))
    c["shift"] = draw(st.sampled_from([1, -1, 5, -7, 100, 13]))
    c["gaps"] = draw(st.lists(st.integers(0, 30), min_size=1, max_size=4))
    return c


MULTIVARIATE_SPECS = [{"kind": "scaler", "which": "standard"}, {"kind": "scaler", "which": "minmax"}, {"kind": "func", "name": "sqrt"},
                      {"kind": "func", "name": "cbrt"}, {"kind": "log"}, {"kind": "cos"}, {"kind": "imputer", "method": "mean"},
                      {"kind": "imputer", "method": "linear"}, {"kind": "hampel", "window_length": 5, "n_sigma": 3}]


def oracle_multivariate(case, ctx):
    """Several variables at once (a DataFrame): same index in, same index and columns out, on the
    training stretch and on a later one; inverse back to the input; a shifted index shifts along."""
    spec = case["spec"]
    n, c, start, ik = case["n"], case["c"], case["start"], case["index_kind"]
    ctx.label(spec["kind"])
    ctx.mark_nontrivial(start != 0 and c >= 2)

    def frame(s0, m, seed):
        idx = gen.int_index(s0, m, ik)
        return pd.DataFrame({"v%d" % j: [7.0 + 2.5 * np.sin(0.7 * k + j + seed) + 0.21 * k + ((k * 13 + j) % 7) / 5.0 for k in range(m)] for j in range(c)}, index=idx)

    Z = frame(start, n, 0)
    Z2 = frame(start + n + case["gap"], case["m"], 3)
    if spec["kind"] == "imputer":
        Z.iloc[2, 0] = np.nan
        Z2.iloc[1, c - 1] = np.nan
    discs = []
    outs = {}
    for shift in (0, case["shift"]):
        t = sut(lambda: pools.build_transformer(spec) if spec["kind"] == "func" else panelpool.build_series_transformer(spec))
        A, B = Z.copy(), Z2.copy()
        A.index = gen.int_index(start + shift, n, ik)
        B.index = gen.int_index(int(Z2.index[0]) + shift, len(Z2), ik)
        r = sut(t.fit, A.copy())
        if isinstance(r, Raised):
            return [unexpected(r, "fit %s on a %d-column frame" % (spec["kind"], c))]
        for name, W in (("train", A), ("later", B)):
            o = sut(t.transform, W.copy())
            if isinstance(o, Raised):
                discs.append(D("transform_raised:%s" % spec["kind"], "%s frame: %r" % (name, o)))
                return discs
            if not isinstance(o, pd.DataFrame) or o.shape != W.shape:
                discs.append(D("multivariate_output_shape:%s" % spec["kind"], "%s: %s for input %s" % (name, getattr(o, "shape", type(o).__name__), W.shape)))
                return discs
            if [int(i) for i in o.index] != [int(i) for i in W.index]:
                discs.append(D("index_not_preserved:%s" % spec["kind"], "%s frame (%d columns): index %s expected %s" % (name, c, list(o.index)[:4], list(W.index)[:4])))
                return discs
            outs[(shift, name)] = np.asarray(o, dtype=float)
            if hasattr(t, "inverse_transform") and spec["kind"] not in ("imputer", "hampel", "cos"):
                back = sut(t.inverse_transform, o.copy())
                if isinstance(back, Raised):
                    discs.append(D("inverse_raised:%s:%s" % (spec["kind"], back.type), "%s frame: %s" % (name, back.msg)))
                    return discs
                if [int(i) for i in back.index] != [int(i) for i in W.index]:
                    discs.append(D("inverse_index:%s" % spec["kind"], "%s frame: %s expected %s" % (name, list(back.index)[:4], list(W.index)[:4])))
                    return discs
                if not close(back, W):
                    discs.append(D("inverse_roundtrip:%s" % spec["kind"], "%s frame" % name))
                    return discs
    for name in ("train", "later"):
        if not close(outs[(0, name)], outs[(case["shift"], name)], 1e-12):
            discs.append(D("values_depend_on_index_origin:%s" % spec["kind"], "%s frame, index shifted by %d" % (name, case["shift"])))
    return discs


@st.composite
def multivariate_cases(draw):
    return {"spec": draw(st.sampled_from(MULTIVARIATE_SPECS)), "n": draw(st.integers(8, 20)), "c": draw(st.integers(2, 3)), "m": draw(st.integers(7, 12)),
            "gap": draw(st.integers(0, 4)), "start": draw(gen.index_start), "index_kind": draw(gen.index_kind), "shift": draw(st.sampled_from([1, -3, 7, 100]))}


def subchecks():
    phase_specs = st.builds(lambda sp, m, k: {"kind": k, "sp": sp, "model": m}, st.integers(2, 8),
                            st.sampled_from(["additive", "multiplicative"]), st.sampled_from(["deseason", "deseason", "cond_deseason"]))
    return [
        SubCheck("inverse_roundtrip", oracle_inverse, base_case(invertible_specs()), quick=2000, thorough=8000, shards_quick=4, shards_thorough=16),
        SubCheck("seasonal_phase", oracle_phase, base_case(phase_specs), quick=1500, thorough=8000, shards_quick=4, shards_thorough=8),
        SubCheck("shift_metamorphic", oracle_shift, shift_cases(), quick=2000, thorough=8000, shards_quick=4, shards_thorough=16),
        SubCheck("multivariate_frames", oracle_multivariate, multivariate_cases(), quick=600, thorough=6000, shards_quick=4, shards_thorough=16),
    ]


SELECTORS = {}
