"""C01 - temporal CV splitters (DESIGN 2/C01)."""
import itertools
import math

import numpy as np
import pandas as pd
from hypothesis import strategies as st

from harness import gen
from harness.runner import D, Raised, SubCheck, sut, unexpected

PROPERTY_ID = "C01"
LEVEL = "exploration"
DESIGN_REF = "DESIGN.md 2/C01"
RULE = (
    "Hypothesis-generated (n, fh, window_length, step_length, initial_window, "
    "start_with_window, cutoffs, container kinds) compared with an independent reference "
    "model of the documented window arithmetic, plus an exhaustive enumeration of small "
    "configurations; a case is non-trivial when it is accepted and yields >= 2 splits and "
    "(gapped fh, or step > 1, or an initial window, or start_with_window=False) - for "
    "temporal_train_test_split when X is given or fh is gapped/absolute; distinct = "
    "distinct canonical JSON of the generated case"
)
ASSUMPTIONS = [
    "only out-of-sample horizons (the property's quantifier); in-sample horizons are not "
    "generated",
    "SingleWindowSplitter and temporal_train_test_split(fh=...) are driven with max(fh) < n "
    "only, because no rejection is documented there",
]

from sktime.forecasting.model_selection import (  # noqa: E402
    CutoffSplitter,
    ExpandingWindowSplitter,
    SingleWindowSplitter,
    SlidingWindowSplitter,
    temporal_train_test_split,
)


# ------------------------------------------------------------------ reference model
def ref_window(kind, n, fh, wl, step, iw, sww):
    """Reference for sliding/expanding.  Returns None when the configuration must be
    rejected, else list of (train_positions, test_positions, cutoff)."""
    fhmax = fh[-1]
    if wl + fhmax > n:
        return None
    if iw is not None:
        if iw + fhmax > n or not sww or iw <= wl:
            return None
    out = []
    if iw is not None:
        c = iw - 1
        out.append((list(range(0, iw)), [c + h for h in fh], c))
        c += step
    elif sww:
        c = wl - 1
    else:
        c = -1
    while c + fhmax <= n - 1:
        if kind == "sliding":
            train = list(range(max(0, c - wl + 1), c + 1))
        else:
            train = list(range(0, c + 1))
        out.append((train, [c + h for h in fh], c))
        c += step
    return out


def build_y(case):
    n = case["n"]
    idx = gen.int_index(case.get("start", 0), n, case.get("index_kind", "range"))
    if case.get("y_kind", "series") == "index":
        return idx
    return pd.Series(np.arange(n, dtype=float) * 1.5 + 2.0, index=idx)


def as_list(a):
    return [int(v) for v in np.asarray(a).tolist()]


def generic_invariants(splits, n, fh, discs, sliding_wl=None, expanding=False):
    """Invariants of the statement checked directly on the yielded arrays."""
    for train, test in splits:
        if len(train) > 0:
            if train != list(range(train[0], train[0] + len(train))):
                discs.append(D("train_not_contiguous", "train=%s" % train))
            c = train[-1]
        else:
            c = None
        if len(test) != len(fh):
            discs.append(D("test_len", "test=%s fh=%s" % (test, fh)))
            continue
        if c is not None and test != [c + h for h in fh]:
            discs.append(D("test_not_cutoff_plus_fh", "train_end=%s test=%s" % (c, test)))
        if any(p < 0 or p >= n for p in train + test):
            discs.append(
                D("position_outside_series", "n=%d train=%s test=%s" % (n, train, test))
            )
        if train and test and max(train) >= min(test):
            discs.append(D("train_overlaps_test", "train=%s test=%s" % (train, test)))
        if expanding and train and train[0] != 0:
            discs.append(D("expanding_not_from_first", "train=%s" % train))


def compare_splits(got, exp, discs, what):
    if len(got) != len(exp):
        discs.append(
            D("n_splits_differs", "%s: got %d splits, expected %d" % (what, len(got), len(exp)))
        )
        return
    for i, ((gtr, gte), (etr, ete, c)) in enumerate(zip(got, exp)):
        if gtr != etr:
            discs.append(
                D("train_window_differs", "%s split %d: got %s expected %s" % (what, i, gtr, etr))
            )
        if gte != ete:
            discs.append(
                D("test_window_differs", "%s split %d: got %s expected %s" % (what, i, gte, ete))
            )


def collect(cv, y):
    r = sut(lambda: [(as_list(a), as_list(b)) for a, b in cv.split(y)])
    return r


# ------------------------------------------------------------------ oracles
def window_oracle(kind):
    def oracle(case, ctx):
        discs = []
        n, fh, step, sww = case["n"], case["fh"], case["step"], case["sww"]
        wl = case["wl"]
        iw = case.get("iw") if kind == "sliding" else None
        fharg = gen.build_fh(fh, case["fh_kind"])
        y = build_y(case)
        if kind == "sliding":
            cv = SlidingWindowSplitter(
                fh=fharg, window_length=wl, step_length=step, initial_window=iw,
                start_with_window=sww,
            )
        else:
            cv = ExpandingWindowSplitter(
                fh=fharg, initial_window=wl, step_length=step, start_with_window=sww
            )
        exp = ref_window(kind, n, fh, wl, step, iw, sww)
        got = collect(cv, y)
        # a splitter is reusable: a second pass yields the same splits and the caller's
        # horizon argument is left as it was
        got2 = collect(cv, y)
        if not isinstance(got, Raised) and (isinstance(got2, Raised) or got2 != got):
            discs.append(D("second_pass_differs", "first %s second %s" % (got[:3], got2 if isinstance(got2, Raised) else got2[:3])))
        if sut(lambda: as_list(fharg if not isinstance(fharg, int) else [fharg])) != fh:
            discs.append(D("caller_fh_modified", "fh argument now %r, was %s" % (fharg, fh)))
        if exp is None:
            ctx.label("infeasible")
            if isinstance(got, Raised):
                if got.is_a(ValueError):
                    ctx.mark_rejected()
                else:
                    discs.append(unexpected(got, "split on infeasible config"))
            else:
                discs.append(
                    D("infeasible_config_accepted",
                      "n=%d fh=%s wl=%s iw=%s sww=%s yielded %d splits" % (n, fh, wl, iw, sww, len(got)))
                )
            return discs
        if isinstance(got, Raised):
            discs.append(
                D("valid_config_rejected:%s" % got.type, "n=%d fh=%s wl=%s step=%s iw=%s sww=%s: %s"
                  % (n, fh, wl, step, iw, sww, got.msg))
            )
            return discs
        ctx.label("feasible")
        ctx.label("splits=%s" % (len(exp) if len(exp) < 3 else "3+"))
        gapped = fh != list(range(1, len(fh) + 1))
        ctx.mark_nontrivial(len(exp) >= 2 and (gapped or step > 1 or iw is not None or not sww))
        if gapped:
            ctx.label("gapped_fh")
        if iw is not None:
            ctx.label("initial_window")
        if not sww:
            ctx.label("start_empty")
        compare_splits(got, exp, discs, kind)
        generic_invariants(got, n, fh, discs, expanding=(kind == "expanding"))
        # cutoffs advance by exactly step; sliding windows exactly wl once they fit
        cut_y = [tr[-1] if tr else -1 for tr, _ in got]
        for a, b in zip(cut_y, cut_y[1:]):
            if b - a != step:
                discs.append(D("cutoff_step", "cutoffs %s step %d" % (cut_y, step)))
                break
        if kind == "sliding":
            for i, (tr, _) in enumerate(got):
                c = tr[-1] if tr else -1
                want = iw if (iw is not None and i == 0) else min(wl, c + 1)
                if len(tr) != want:
                    discs.append(D("sliding_length", "split %d len %d want %d" % (i, len(tr), want)))
        # reported counts / cutoffs are those yielded
        ns = sut(cv.get_n_splits, y)
        if isinstance(ns, Raised):
            discs.append(unexpected(ns, "get_n_splits"))
        elif ns != len(got):
            discs.append(D("n_splits_reported", "get_n_splits=%s yielded=%d" % (ns, len(got))))
        cs = sut(lambda: as_list(cv.get_cutoffs(y)))
        if isinstance(cs, Raised):
            discs.append(unexpected(cs, "get_cutoffs"))
        elif cs != cut_y:
            discs.append(D("cutoffs_reported", "get_cutoffs=%s yielded=%s" % (cs, cut_y)))
        return discs

    return oracle


def single_oracle(case, ctx):
    discs = []
    n, fh, wl = case["n"], case["fh"], case["wl"]
    y = build_y(case)
    cv = SingleWindowSplitter(fh=gen.build_fh(fh, case["fh_kind"]), window_length=wl)
    got = collect(cv, y)
    if isinstance(got, Raised):
        discs.append(D("valid_config_rejected:%s" % got.type, "n=%d fh=%s wl=%s: %s" % (n, fh, wl, got.msg)))
        return discs
    c = n - fh[-1] - 1
    if wl is None:
        etr = list(range(0, c + 1))
    else:
        etr = list(range(max(0, c - wl + 1), c + 1))
    compare_splits(got, [(etr, [c + h for h in fh], c)], discs, "single")
    generic_invariants(got, n, fh, discs)
    gapped = fh != list(range(1, len(fh) + 1))
    ctx.mark_nontrivial(gapped or wl is not None)
    ns = sut(cv.get_n_splits, y)
    if ns != 1:
        discs.append(D("n_splits_reported", "get_n_splits=%r" % (ns,)))
    cs = sut(lambda: as_list(cv.get_cutoffs(y)))
    if isinstance(cs, Raised):
        discs.append(unexpected(cs, "get_cutoffs"))
    elif cs != [c]:
        discs.append(D("cutoffs_reported", "get_cutoffs=%s expected=%s" % (cs, [c])))
    return discs


def cutoff_oracle(case, ctx):
    discs = []
    n, fh, wl, cuts = case["n"], case["fh"], case["wl"], case["cutoffs"]
    y = build_y(case)
    carr = np.array(cuts, dtype="int64")
    if case["cutoffs_kind"] == "index":
        carr = pd.Index(carr)
    cv = CutoffSplitter(carr, fh=gen.build_fh(fh, case["fh_kind"]), window_length=wl)
    got = collect(cv, y)
    feasible = max(cuts) + fh[-1] <= n - 1
    if not feasible:
        ctx.label("infeasible")
        if isinstance(got, Raised):
            if got.is_a(ValueError):
                ctx.mark_rejected()
            else:
                discs.append(unexpected(got, "split on infeasible cutoffs"))
        else:
            bad = [t for _, te in got for t in te if t >= n or t < 0]
            discs.append(
                D("test_position_outside_series",
                  "n=%d cutoffs=%s fh=%s accepted; test positions outside: %s" % (n, cuts, fh, bad))
            )
        return discs
    if isinstance(got, Raised):
        discs.append(D("valid_config_rejected:%s" % got.type, "n=%d cutoffs=%s fh=%s: %s" % (n, cuts, fh, got.msg)))
        return discs
    ctx.label("feasible")
    sc = sorted(cuts)
    exp = [(list(range(max(0, c - wl + 1), c + 1)), [c + h for h in fh], c) for c in sc]
    compare_splits(got, exp, discs, "cutoff")
    generic_invariants(got, n, fh, discs)
    gapped = fh != list(range(1, len(fh) + 1))
    ctx.mark_nontrivial(len(cuts) >= 2 and (gapped or cuts != sc or any(c - wl + 1 < 0 for c in cuts)))
    ns = sut(cv.get_n_splits, y)
    if ns != len(got):
        discs.append(D("n_splits_reported", "get_n_splits=%r yielded=%d" % (ns, len(got))))
    cs = sut(lambda: as_list(cv.get_cutoffs(y)))
    if isinstance(cs, Raised):
        discs.append(unexpected(cs, "get_cutoffs"))
    elif cs != sc:
        discs.append(D("cutoffs_reported", "get_cutoffs=%s expected=%s" % (cs, sc)))
    return discs


def tts_oracle(case, ctx):
    discs = []
    n, start = case["n"], case["start"]
    idx = gen.int_index(start, n, case["index_kind"])
    y = pd.Series(np.arange(n, dtype=float) * 0.5 + 1.0, index=idx)
    X = None
    if case["with_X"]:
        X = pd.DataFrame({"a": np.arange(n, dtype=float) + 100.0, "b": np.arange(n, dtype=float) * -1.0}, index=idx)
    mode = case["mode"]
    kw = {}
    labels = list(range(start, start + n))
    exp_train = exp_test = None
    exp_xtest = None
    if mode == "default":
        n_test = math.ceil(0.25 * n)
        exp_train, exp_test = labels[: n - n_test], labels[n - n_test:]
    elif mode == "test_int":
        k = case["k"]
        kw["test_size"] = k
        exp_train, exp_test = labels[: n - k], labels[n - k:]
    elif mode == "train_int":
        k = case["k"]
        kw["train_size"] = k
        exp_train, exp_test = labels[:k], labels[k:]
    elif mode == "both_int":
        k, k2 = case["k"], case["k2"]
        kw["train_size"], kw["test_size"] = k, k2
        exp_train, exp_test = labels[:k], labels[k: k + k2]
    elif mode == "test_float":
        p = case["p"]
        kw["test_size"] = p
    elif mode == "train_float":
        p = case["p"]
        kw["train_size"] = p
    elif mode == "fh_rel":
        fh = case["fh"]
        kw["fh"] = gen.build_fh(fh, case["fh_kind"])
        c = n - fh[-1] - 1
        exp_train = labels[: c + 1]
        exp_test = [labels[c + h] for h in fh]
        exp_xtest = labels[c + 1:]
    elif mode == "fh_abs":
        fh = case["fh"]
        # the absolute time points need not reach the end of the series: what lies after
        # them belongs to neither part
        c = n - fh[-1] - 1 - min(case.get("abs_end_gap", 0), n - fh[-1] - 2)
        absl = [labels[c + h] for h in fh]
        if absl[-1] != labels[-1]:
            ctx.label("absolute_horizon_ends_before_series_end")
        from sktime.forecasting.base import ForecastingHorizon

        kw["fh"] = ForecastingHorizon(absl, is_relative=False)
        exp_train = [l for l in labels if l < absl[0]]
        exp_test = absl
        exp_xtest = [l for l in labels if absl[0] <= l <= absl[-1]]
    args = (y,) if X is None else (y, X)
    r = sut(temporal_train_test_split, *args, **kw)
    if isinstance(r, Raised):
        discs.append(D("valid_split_rejected:%s" % r.type, "%s: %s" % (kw, r.msg)))
        return discs
    if len(r) != (2 if X is None else 4):
        discs.append(D("tts_arity", "returned %d objects" % len(r)))
        return discs
    if X is None:
        ytr, yte = r
    else:
        ytr, yte, Xtr, Xte = r
    gtr, gte = as_list(ytr.index), as_list(yte.index)
    if mode in ("test_float", "train_float"):
        p = case["p"]
        if mode == "test_float":
            ok = len(gte) in (math.floor(p * n), math.ceil(p * n)) and len(gtr) == n - len(gte)
        else:
            ok = len(gtr) in (math.floor(p * n), math.ceil(p * n)) and len(gte) == n - len(gtr)
        if not ok:
            discs.append(D("tts_float_size", "n=%d p=%r train=%d test=%d" % (n, p, len(gtr), len(gte))))
        exp_train, exp_test = labels[: len(gtr)], labels[len(gtr): len(gtr) + len(gte)]
    if gtr != exp_train:
        discs.append(D("tts_train_index", "mode=%s got %s expected %s" % (mode, gtr, exp_train)))
    if gte != exp_test:
        discs.append(D("tts_test_index", "mode=%s got %s expected %s" % (mode, gte, exp_test)))
    # values travel with labels
    if not np.array_equal(ytr.to_numpy(), y.loc[gtr].to_numpy()) or not np.array_equal(
        yte.to_numpy(), y.loc[gte].to_numpy()
    ):
        discs.append(D("tts_values", "values do not match labels"))
    if gtr and gte and max(gtr) >= min(gte):
        discs.append(D("train_overlaps_test", "train=%s test=%s" % (gtr, gte)))
    if X is not None:
        gxtr, gxte = as_list(Xtr.index), as_list(Xte.index)
        if gxtr != gtr:
            discs.append(D("tts_X_train_index", "X_train %s y_train %s" % (gxtr, gtr)))
        want = exp_xtest if exp_xtest is not None else gte
        if gxte != want:
            discs.append(D("tts_X_test_index", "X_test %s expected %s" % (gxte, want)))
        if not np.array_equal(Xtr.to_numpy(), X.loc[gxtr].to_numpy()) or not np.array_equal(
            Xte.to_numpy(), X.loc[gxte].to_numpy()
        ):
            discs.append(D("tts_values", "X values do not match labels"))
    ctx.label(mode)
    ctx.mark_nontrivial(
        case["with_X"] or (mode in ("fh_rel", "fh_abs") and case["fh"] != list(range(1, len(case["fh"]) + 1)))
        or mode == "both_int"
    )
    return discs


# ------------------------------------------------------------------ strategies
@st.composite
def window_cases(draw, kind, max_n=60):
    n = draw(st.integers(1, max_n))
    fh = draw(gen.fh_steps(max_step=draw(st.sampled_from([3, 6, 12])), max_size=5))
    if draw(st.integers(0, 9)) < 7 and n - fh[-1] >= 1:
        wl = draw(st.integers(1, n - fh[-1]))  # feasible by construction
    else:
        wl = draw(st.integers(1, n + 3))
    step = draw(st.integers(1, max(1, min(n, 12))))
    sww = draw(st.booleans())
    case = {
        "n": n, "fh": fh, "wl": wl, "step": step, "sww": sww,
        "fh_kind": draw(st.sampled_from(["int", "list", "array", "fh", "index"])),
        "start": draw(gen.index_start), "index_kind": draw(gen.index_kind),
        "y_kind": draw(st.sampled_from(["series", "index"])),
    }
    if kind == "sliding":
        if draw(st.booleans()):
            case["iw"] = None
        elif draw(st.integers(0, 9)) < 7 and n - fh[-1] > wl:
            case["iw"] = draw(st.integers(wl + 1, n - fh[-1]))
            case["sww"] = True
        else:
            case["iw"] = draw(st.integers(1, n + 3))
    return case


@st.composite
def single_cases(draw, max_n=60):
    n = draw(st.integers(2, max_n))
    hmax = draw(st.integers(1, min(12, n - 1)))
    rest = draw(st.lists(st.integers(1, hmax), max_size=4, unique=True))
    fh = sorted(set(rest + [hmax]))
    wl = draw(st.one_of(st.none(), st.integers(1, n + 2)))
    return {
        "n": n, "fh": fh, "wl": wl,
        "fh_kind": draw(st.sampled_from(["int", "list", "array", "fh"])),
        "start": draw(gen.index_start), "index_kind": draw(gen.index_kind),
        "y_kind": draw(st.sampled_from(["series", "index"])),
    }


@st.composite
def cutoff_cases(draw, max_n=60):
    n = draw(st.integers(2, max_n))
    fh = draw(gen.fh_steps(max_step=8, max_size=4))
    # bias towards the feasibility boundary
    top = draw(st.one_of(st.integers(0, n - 1), st.integers(max(0, n - fh[-1] - 2), n - 1)))
    rest = draw(st.lists(st.integers(0, top), max_size=5, unique=True))
    cuts = list(dict.fromkeys(rest + [top]))
    cuts = draw(st.permutations(cuts))
    return {
        "n": n, "fh": fh, "wl": draw(st.integers(1, n + 2)), "cutoffs": list(cuts),
        "cutoffs_kind": draw(st.sampled_from(["array", "index"])),
        "fh_kind": draw(st.sampled_from(["int", "list", "array", "fh"])),
        "start": draw(gen.index_start), "index_kind": draw(gen.index_kind),
        "y_kind": draw(st.sampled_from(["series", "index"])),
    }


@st.composite
def tts_cases(draw):
    n = draw(st.integers(4, 60))
    mode = draw(st.sampled_from(
        ["default", "test_int", "train_int", "both_int", "test_float", "train_float", "fh_rel", "fh_abs"]))
    case = {"n": n, "start": draw(gen.index_start), "index_kind": draw(gen.index_kind),
            "with_X": draw(st.booleans()), "mode": mode}
    if mode in ("test_int", "train_int"):
        case["k"] = draw(st.integers(1, n - 1))
    elif mode == "both_int":
        case["k"] = draw(st.integers(1, n - 1))
        case["k2"] = draw(st.integers(1, n - case["k"]))
    elif mode in ("test_float", "train_float"):
        k = draw(st.integers(1, n - 1))
        p = draw(st.floats(0.02, 0.98))
        # keep sizes valid for sklearn: 1 <= size <= n-1 under both roundings
        if not (1 <= math.floor(p * n) and math.ceil(p * n) <= n - 1):
            p = (k + 0.5) / n if k < n - 1 else (k - 0.5) / n
        case["p"] = p
    elif mode in ("fh_rel", "fh_abs"):
        hmax = draw(st.integers(1, min(10, n - 2)))
        rest = draw(st.lists(st.integers(1, hmax), max_size=4, unique=True))
        case["fh"] = sorted(set(rest + [hmax]))
        case["fh_kind"] = draw(st.sampled_from(["int", "list", "array", "fh"]))
        case["abs_end_gap"] = draw(st.sampled_from([0, 0, 1, 2, 5]))
    return case


def enum_windows(kind):
    def it(tier):
        nmax = 9 if tier == "quick" else 14
        fhsets = [[1], [2], [1, 2], [1, 3], [2, 4], [1, 2, 3]] if tier == "quick" else [
            list(c) for r in (1, 2, 3) for c in itertools.combinations((1, 2, 3, 4), r)]
        for n in range(1, nmax + 1):
            for fh in fhsets:
                for wl in range(1, n + 2):
                    for step in range(1, (4 if tier == "quick" else 6)):
                        for sww in (True, False):
                            iws = [None]
                            if kind == "sliding":
                                iws = [None] + list(range(max(1, wl), min(n + 2, wl + (3 if tier == "quick" else 5))))
                            for iw in iws:
                                c = {"n": n, "fh": fh, "wl": wl, "step": step, "sww": sww,
                                     "fh_kind": "list", "start": 0, "index_kind": "range", "y_kind": "series"}
                                if kind == "sliding":
                                    c["iw"] = iw
                                yield c
    return it


def subchecks():
    return [
        SubCheck("sliding", window_oracle("sliding"), window_cases("sliding"), quick=2000, thorough=20000,
                 shards_quick=2, shards_thorough=8),
        SubCheck("expanding", window_oracle("expanding"), window_cases("expanding"), quick=2000, thorough=20000,
                 shards_quick=2, shards_thorough=8),
        SubCheck("single_window", single_oracle, single_cases(), quick=1500, thorough=15000, shards_thorough=4),
        SubCheck("cutoff", cutoff_oracle, cutoff_cases(), quick=2000, thorough=20000, shards_quick=2, shards_thorough=8),
        SubCheck("train_test_split", tts_oracle, tts_cases(), quick=1500, thorough=15000, shards_quick=2, shards_thorough=4),
        SubCheck("sliding_enum", window_oracle("sliding"), enumerate_cases=enum_windows("sliding"),
                 shards_quick=3, shards_thorough=16, exhaustive=True),
        SubCheck("expanding_enum", window_oracle("expanding"), enumerate_cases=enum_windows("expanding"),
                 shards_quick=1, shards_thorough=8, exhaustive=True),
    ]


def _sel_cutoff_boundary(case, disc):
    return max(case["cutoffs"]) + case["fh"][-1] == case["n"]


SELECTORS = {"cutoff_plus_fh_equals_n": _sel_cutoff_boundary}

FUZZ = [("sliding", 40000), ("expanding", 30000), ("cutoff", 30000), ("train_test_split", 20000)]
