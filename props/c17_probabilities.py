"""C17 - classifiers return well-formed probabilities consistent with predictions (DESIGN 2/C17)."""
import numpy as np
import pandas as pd
from hypothesis import strategies as st

from harness import panelpool
from harness.runner import D, Raised, SubCheck, sut, unexpected

PROPERTY_ID = "C17"
LEVEL = "exploration"
RULE = (
    "generated label sets (2..4 classes as non-contiguous / negative ints, strings, floats; "
    "balanced or not), panels (random and class-separable), random seeds, for every runnable "
    "classifier; oracle = validity predicates (shape, [0,1], rows sum to 1, classes_ == sorted "
    "training labels, arg-max column == true class on separable data, predict in the training "
    "label set and of the supplied type attaining the maximal probability, score == fraction of "
    "matches) and recomputation oracles: the forest's probabilities / regressor predictions from "
    "its fitted trees on mean/std/slope of its fitted intervals, the column ensemble from its "
    "fitted members (incl. 'drop' and empty-column members); forest panels at levels up to 1e7; "
    "classifiers optionally fitted before on another problem; for the nearest-neighbour "
    "dictionary classifiers renaming the classes in reverse sort order must reverse the "
    "probability columns. non-trivial = >= 3 classes, or "
    "non-integer / non-contiguous labels, or an unbalanced set, or a dropped member; distinct = JSON"
)
ASSUMPTIONS = ["probabilities compared with atol 1e-9", "float labels are integral-valued (scikit-learn's accuracy_score, which score() delegates to, rejects continuous targets)", "forest features recomputed in float64 then cast to float32 as the forest does"]


def sorted_unique(y):
    return sorted(set(y.tolist()))


def oracle_wellformed(case, ctx):
    spec = case["spec"]
    kind = spec["kind"]
    k = case["n_classes"]
    n = case["n_train"]
    c = 2 if kind == "muse" else (spec.get("n_columns", 1) if kind == "cec" else 1)
    t = max(case["t"], panelpool.min_timepoints(kind))
    if case["separable"]:
        X3, cls = panelpool.separable_panel(case["seed"], n, c, t, k)
    else:
        X3 = panelpool.panel_values(case["seed"], n, c, t)
        cls = np.array([i % k for i in range(n)])
    labs = {"int": [0, 1, 2, 3], "int_gap": [-3, 7, 12, 40], "str": ["b", "a", "zz", "c"], "float": [1.0, -2.0, 3.0, 10.0]}[case["label_kind"]][:k]
    if case["unbalanced"] and n >= 2 * k + 2:
        cls = np.array(list(range(k)) * 2 + [0] * (n - 2 * k))
        if case["separable"]:
            X3, _ = panelpool.separable_panel(case["seed"], n, c, t, k)
            for i in range(n):
                X3[i] += 10.0 * (cls[i] - (i % k))
    if case.get("dup") and n >= 4:
        # exact copies of training series carrying different labels: nearest-neighbour
        # classifiers meet exact distance ties (resolved at random) on them
        for a, b in ((0, 1), (2, 3)):
            if cls[a] != cls[b]:
                X3[b] = X3[a]
        ctx.label("conflicting_duplicates")
    y = np.array([labs[j] for j in cls])
    if case["y_as_series"]:
        # labels as a pandas Series; its row labels are not data (a slice or a shuffled split
        # of a longer Series keeps its labels)
        yi = case.get("y_index") or "default"
        idx = {"default": None, "offset": list(range(100, 100 + n)), "shuffled": [(7 * i + 3) % n if n % 7 else (5 * i + 3) % n for i in range(n)]}[yi]
        if idx is not None and len(set(idx)) != n:
            idx = list(range(n - 1, -1, -1))
        y_in = pd.Series(y, index=idx)
        if idx is not None:
            ctx.label("y_series_with_row_labels:%s" % yi)
    else:
        y_in = y
    X = panelpool.to_nested(X3) if case["container"] == "nested" else X3
    ctx.label(kind)
    ctx.label("labels:%s" % case["label_kind"])
    ctx.mark_nontrivial(k >= 3 or case["label_kind"] != "int" or case["unbalanced"])
    clf = panelpool.build_classifier(spec)
    if case.get("prefit"):
        # the same object was trained before on another problem (other labels, one more class,
        # other length): everything below refers to the LAST fit
        k0 = min(k + 1, 4)
        X0, cls0 = panelpool.separable_panel(case["seed"] + 17, n + 2, c, t + 3, k0)
        lab0 = ["q", "r", "s", "t"][:k0] if case["label_kind"] != "str" else [100, 200, 300, 400][:k0]
        sut(clf.fit, panelpool.to_nested(X0), np.array([lab0[j] for j in cls0]))
        ctx.label("refitted")
    r = sut(clf.fit, X, y_in)
    if isinstance(r, Raised):
        if not r.is_a(ValueError):
            return [D("fit_raised:%s:%s@%s" % (kind, r.type, r.where), r.msg)]
        ctx.mark_rejected()
        ctx.label("fit_refused:%s" % kind)
        return []
    discs = []
    P = sut(clf.predict_proba, X)
    if isinstance(P, Raised):
        return [D("apply_raised:%s.predict_proba:%s@%s" % (kind, P.type, P.where), P.msg)]
    P = np.asarray(P, dtype=float)
    want_classes = sorted_unique(y)
    if P.shape != (n, len(want_classes)):
        return [D("proba_shape:%s" % kind, "shape %s expected %s (labels %s)" % (P.shape, (n, len(want_classes)), want_classes))]
    if np.any(P < -1e-12) or np.any(P > 1 + 1e-12) or np.any(~np.isfinite(P)):
        discs.append(D("proba_range:%s" % kind, "min %r max %r" % (P.min(), P.max())))
    if not np.allclose(P.sum(axis=1), 1.0, atol=1e-9):
        discs.append(D("proba_rows_do_not_sum_to_one:%s" % kind, "row sums %s" % P.sum(axis=1)[:6].tolist()))
    cl = sut(lambda: list(np.asarray(clf.classes_).tolist()))
    if isinstance(cl, Raised) or [str(v) for v in cl] != [str(v) for v in want_classes]:
        discs.append(D("classes_attribute:%s" % kind, "classes_ %r expected %r" % (cl, want_classes)))
        return discs
    if case["separable"]:
        import itertools

        am = P.argmax(axis=1)
        true_col = np.array([want_classes.index(v) for v in y.tolist()])
        # a class-order mix-up makes some other column assignment strictly more accurate than
        # the declared one (the classifier itself need not be perfect on its training data)
        ident = float(np.mean(am == true_col))
        best = max(float(np.mean(np.array([pm[a] for a in am]) == true_col)) for pm in itertools.permutations(range(len(want_classes))))
        # sound only with overwhelming evidence: the classifier is PERFECT under another column
        # assignment and not under the declared one (an inaccurate classifier that merely
        # confuses two classes never satisfies this)
        if best > ident + 1e-12 and best == 1.0 and n >= 2 * len(want_classes):
            discs.append(D("columns_not_aligned_with_classes_:%s" % kind, "labels %s: argmax columns %s, true columns %s (declared order %.2f accurate, another order %.2f)"
                           % (want_classes, am.tolist(), true_col.tolist(), ident, best)))
    if kind in RELABEL_EQUIVARIANT and len(want_classes) >= 2:
        # metamorphic: the label VALUES are arbitrary. Renaming the classes so that their sort
        # order is reversed must give the same probabilities with the columns reversed (the
        # nearest-neighbour dictionary classifiers never look at the label values, and their
        # random choices are made over instance positions).
        rev = dict(zip(want_classes, want_classes[::-1]))
        y2 = np.array([rev[v] for v in y.tolist()])
        clf2 = panelpool.build_classifier(spec)
        r2 = sut(clf2.fit, X, pd.Series(y2) if case["y_as_series"] else y2)
        P2 = sut(clf2.predict_proba, X) if not isinstance(r2, Raised) else r2
        if isinstance(P2, Raised):
            discs.append(D("relabelled_run_raised:%s:%s@%s" % (kind, P2.type, P2.where), P2.msg))
        else:
            P2 = np.asarray(P2, dtype=float)
            if P2.shape != P.shape or not np.allclose(P2[:, ::-1], P, atol=1e-9, equal_nan=True):
                bad = int(np.argmax(~np.isclose(P2[:, ::-1], P, atol=1e-9).all(axis=1))) if P2.shape == P.shape else -1
                discs.append(D("proba_depends_on_label_values:%s" % kind, "labels %s renamed to %s: instance %d has %s, with the original labels %s"
                               % (want_classes, want_classes[::-1], bad, P2[bad][::-1].tolist() if bad >= 0 else P2.shape, P[bad].tolist() if bad >= 0 else P.shape)))
    pred = sut(clf.predict, X)
    if isinstance(pred, Raised):
        return discs + [D("apply_raised:%s.predict:%s@%s" % (kind, pred.type, pred.where), pred.msg)]
    pred = np.asarray(pred)
    if pred.shape != (n,):
        return discs + [D("predict_shape:%s" % kind, str(pred.shape))]
    for i in range(n):
        lab = pred[i].item() if hasattr(pred[i], "item") else pred[i]
        match = [j for j, v in enumerate(want_classes) if v == lab and type(v) is type(lab)]
        if not match:
            discs.append(D("predict_label_not_a_training_label:%s" % kind, "predicted %r (%s), training labels %r" % (lab, type(lab).__name__, want_classes)))
            break
        if P[i, match[0]] < P[i].max() - 1e-9:
            discs.append(D("predict_not_argmax_of_proba:%s" % kind, "instance %d: predicted %r with p=%r, max p=%r" % (i, lab, P[i, match[0]], P[i].max())))
            break
    s = sut(clf.score, X, y_in)
    if isinstance(s, Raised):
        discs.append(D("apply_raised:%s.score:%s" % (kind, s.type), s.msg))
    else:
        pred2 = np.asarray(sut(clf.predict, X))
        frac = float(np.mean(pred2 == y))
        if not np.isclose(float(s), frac, atol=1e-12):
            discs.append(D("score_not_fraction_of_matches:%s" % kind, "score %r, fraction %r" % (s, frac)))
    # unseen, noisy instances (ensemble members disagree, votes tie): the same clauses hold
    n_new = case.get("n_new") or 0
    if n_new and not discs:
        Xn3 = panelpool.panel_values(case["seed"] + 5, n_new, c, t)
        Xn = panelpool.to_nested(Xn3) if case["container"] == "nested" else Xn3
        Pn = sut(clf.predict_proba, Xn)
        if isinstance(Pn, Raised):
            return discs + [D("apply_raised:%s.predict_proba:%s@%s" % (kind, Pn.type, Pn.where), "unseen instances: " + Pn.msg)]
        Pn = np.asarray(Pn, dtype=float)
        if Pn.shape != (n_new, len(want_classes)):
            return discs + [D("proba_shape:%s" % kind, "unseen instances: shape %s expected %s" % (Pn.shape, (n_new, len(want_classes))))]
        if np.any(Pn < -1e-12) or np.any(Pn > 1 + 1e-12) or np.any(~np.isfinite(Pn)):
            discs.append(D("proba_range:%s" % kind, "unseen instances: min %r max %r" % (Pn.min(), Pn.max())))
        elif not np.allclose(Pn.sum(axis=1), 1.0, atol=1e-9):
            discs.append(D("proba_rows_do_not_sum_to_one:%s" % kind, "unseen instances: row sums %s" % Pn.sum(axis=1)[:6].tolist()))
        pn = sut(clf.predict, Xn)
        if isinstance(pn, Raised):
            return discs + [D("apply_raised:%s.predict:%s@%s" % (kind, pn.type, pn.where), "unseen instances: " + pn.msg)]
        pn = np.asarray(pn)
        tied = False
        for i in range(min(n_new, len(pn))):
            lab = pn[i].item() if hasattr(pn[i], "item") else pn[i]
            match = [j for j, v in enumerate(want_classes) if v == lab and type(v) is type(lab)]
            top = np.flatnonzero(np.isclose(Pn[i], Pn[i].max(), atol=1e-9))
            if len(top) > 1:
                tied = True
                if list(top) != list(range(len(top))):
                    ctx.label("tie_not_among_first_classes")
            if not match:
                discs.append(D("predict_label_not_a_training_label:%s" % kind, "unseen instance: predicted %r (%s), training labels %r" % (lab, type(lab).__name__, want_classes)))
                break
            if Pn[i, match[0]] < Pn[i].max() - 1e-9:
                discs.append(D("predict_not_argmax_of_proba:%s" % kind, "unseen instance %d: predicted %r with p=%r, probabilities %s over %s"
                               % (i, lab, Pn[i, match[0]], Pn[i].tolist(), want_classes)))
                break
        if tied:
            ctx.label("tied_maximum")
    return discs


RELABEL_EQUIVARIANT = ("boss", "cboss", "iboss", "itde")


def _feat(X2, intervals):
    cols = []
    for (a, b) in intervals:
        S = X2[:, a:b].astype(float)
        tt = np.arange(S.shape[1], dtype=float)
        tc = tt - tt.mean()
        den = np.sum(tc ** 2)
        slope = (S - S.mean(axis=1, keepdims=True)) @ tc / den if den > 0 else np.zeros(len(S))
        cols += [S.mean(axis=1), S.std(axis=1), slope]
    return np.column_stack(cols).astype(np.float32)


def oracle_forest(case, ctx):
    # worker threads: the same in a shard process (where joblib would silently run sequentially)
    # and in a replay; n_jobs then really splits the work
    import joblib

    with joblib.parallel_backend("threading"):
        return _oracle_forest(case, ctx)


def _oracle_forest(case, ctx):
    n, t = case["n_train"], case["t"]
    X3 = panelpool.panel_values(case["seed"], n, 1, t)
    Xa = panelpool.panel_values(case["seed"] + 3, case["n_apply"], 1, t)
    level = case.get("level", 0.0)
    if level:
        # series whose level is large compared with their variation: the summary features
        # are still those of the data (computed in double precision)
        X3 = panelpool.panel_values(case["seed"], n, 1, t, kind="noise") + level
        Xa = panelpool.panel_values(case["seed"] + 3, case["n_apply"], 1, t, kind="noise") + level
        ctx.label("level_%g" % level)
    if case.get("dup") and n >= 4:
        # repeated training series carrying different labels (impure leaves in fully grown trees),
        # and asked about again at prediction time
        X3[1], X3[3] = X3[0].copy(), X3[2].copy()
        Xa[0] = X3[0].copy()
        if len(Xa) > 1:
            Xa[-1] = X3[2].copy()
        ctx.label("conflicting_duplicates")
    if case.get("int_panel") and not level:
        # integer-valued observations stored with an integer dtype (counts)
        X3 = np.round(X3 * 3).astype("int64")
        Xa = np.round(Xa * 3).astype("int64")
        ctx.label("integer_dtype_panel")
    ctx.mark_nontrivial(True)
    discs = []
    if case["which"] == "classifier":
        k = case["n_classes"]
        labs = {"int": [0, 1, 2, 3], "int_gap": [-3, 7, 12, 40], "str": ["b", "a", "zz", "c"]}[case["label_kind"]][:k]
        y = np.array([labs[i % k] for i in range(n)])
        est = panelpool.build_classifier({"kind": "tsf", "n_estimators": case["n_estimators"], "random_state": case["rs"], "n_jobs": case["n_jobs"]})
        if case.get("refit_other_params"):
            # the forest was trained before with more trees, on a longer panel with other labels
            est.set_params(n_estimators=case["n_estimators"] + 2)
            X0 = panelpool.panel_values(case["seed"] + 9, n + 1, 1, t + 5)
            sut(est.fit, panelpool.to_nested(X0), np.array(["u", "v", "w"])[np.arange(n + 1) % 3])
            est.set_params(n_estimators=case["n_estimators"])
            ctx.label("refitted_with_other_parameters")
        r = sut(est.fit, panelpool.to_nested(X3), y)
        if isinstance(r, Raised):
            return [unexpected(r, "tsf.fit")]
        P = sut(est.predict_proba, Xa.copy())
        if isinstance(P, Raised):
            return [unexpected(P, "tsf.predict_proba")]
        trees, ivs = est.estimators_, est.intervals_
        if len(trees) != case["n_estimators"] or len(ivs) != len(trees):
            return [D("forest_size", "%d trees %d interval sets for n_estimators=%d" % (len(trees), len(ivs), case["n_estimators"]))]
        exp = np.zeros((len(Xa), len(set(y.tolist()))))
        for tr, iv in zip(trees, ivs):
            if np.any(np.asarray(iv)[:, 0] < 0) or np.any(np.asarray(iv)[:, 1] > t) or np.any(np.asarray(iv)[:, 1] <= np.asarray(iv)[:, 0]):
                return [D("forest_interval_outside_series", "%s length %d" % (np.asarray(iv).tolist(), t))]
            exp += tr.predict_proba(_feat(Xa[:, 0, :], iv))
        exp /= len(trees)
        if np.shape(P) != exp.shape or not np.allclose(P, exp, atol=1e-9):
            discs.append(D("forest_proba_not_average_of_trees", "got %s expected %s" % (np.asarray(P)[:2].tolist(), exp[:2].tolist())))
    else:
        y = np.round(np.linspace(-2, 3, n) + np.sin(np.arange(n)), 4)
        est = panelpool.build_classifier({"kind": "tsfr", "n_estimators": case["n_estimators"], "random_state": case["rs"], "n_jobs": case["n_jobs"]})
        if case.get("refit_other_params"):
            est.set_params(n_estimators=case["n_estimators"] + 2)
            X0 = panelpool.panel_values(case["seed"] + 9, n + 1, 1, t + 5)
            sut(est.fit, panelpool.to_nested(X0), np.linspace(5.0, 9.0, n + 1))
            est.set_params(n_estimators=case["n_estimators"])
            ctx.label("refitted_with_other_parameters")
        r = sut(est.fit, panelpool.to_nested(X3), y)
        if isinstance(r, Raised):
            return [unexpected(r, "tsfr.fit")]
        p = sut(est.predict, Xa.copy())
        if isinstance(p, Raised):
            return [unexpected(p, "tsfr.predict")]
        exp = np.mean([tr.predict(_feat(Xa[:, 0, :], iv)) for tr, iv in zip(est.estimators_, est.intervals_)], axis=0)
        if np.shape(p) != exp.shape or not np.allclose(p, exp, rtol=1e-9, atol=1e-9):
            discs.append(D("forest_regression_not_average_of_trees", "got %s expected %s" % (np.asarray(p)[:3].tolist(), exp[:3].tolist())))
    return discs


def oracle_column_ensemble(case, ctx):
    from sktime.classification.compose import ColumnEnsembleClassifier
    from sktime.classification.interval_based import TimeSeriesForestClassifier

    n, t, c = case["n_train"], case["t"], case["c"]
    X3 = panelpool.panel_values(case["seed"], n, c, t)
    Xa = panelpool.panel_values(case["seed"] + 5, case["n_apply"], c, t)
    k = case["n_classes"]
    labs = {"int": [0, 1, 2, 3], "int_gap": [-3, 7, 12, 40], "str": ["b", "a", "zz", "c"]}[case["label_kind"]][:k]
    y = np.array([labs[i % k] for i in range(n)])
    members = []
    active = []
    for j, m in enumerate(case["members"]):
        col = m["col"] % c
        if m["mode"] == "drop":
            members.append(("m%d" % j, "drop", [col]))
        elif m["mode"] == "empty":
            members.append(("m%d" % j, TimeSeriesForestClassifier(n_estimators=3, random_state=j), []))
        else:
            members.append(("m%d" % j, TimeSeriesForestClassifier(n_estimators=3, random_state=j), [col]))
            active.append((j, col))
    if not active:
        members.append(("mx", TimeSeriesForestClassifier(n_estimators=3, random_state=99), [0]))
        active.append((len(members) - 1, 0))
    dropped = len(members) - len(active)
    ctx.mark_nontrivial(dropped > 0 or k >= 3 or case["label_kind"] != "int")
    if dropped:
        ctx.label("with_dropped_member")
    by_name = bool(case.get("by_name"))
    if by_name:
        # members declared by column NAME; the frame handed to predict_proba may list the same
        # columns in another order (or with the columns the members own among others)
        members = [(nm, est, [("dim_%d" % j) for j in cols] if cols else cols) for (nm, est, cols) in members]
        ctx.label("columns_by_name")
    clf = ColumnEnsembleClassifier(members)
    r = sut(clf.fit, panelpool.to_nested(X3), y)
    if isinstance(r, Raised):
        return [D("fit_raised:cec:%s@%s" % (r.type, r.where), "members %s: %s" % ([(m[0], m[1] if isinstance(m[1], str) else "tsf", m[2]) for m in members], r.msg))]
    Xa_frame = panelpool.to_nested(Xa)
    if by_name and c >= 2:
        Xa_frame = Xa_frame[list(Xa_frame.columns)[::-1]]
        ctx.label("columns_reordered_at_predict")
    P = sut(clf.predict_proba, Xa_frame)
    if isinstance(P, Raised):
        return [D("apply_raised:cec.predict_proba:%s@%s" % (P.type, P.where), P.msg)]
    # recompute from independently fitted members (same seeds, same columns)
    exp = np.zeros((len(Xa), len(set(y.tolist()))))
    for j, col in active:
        m = TimeSeriesForestClassifier(n_estimators=3, random_state=members[j][1].random_state)
        m.fit(panelpool.to_nested(X3[:, [col], :]), y)
        exp += m.predict_proba(panelpool.to_nested(Xa[:, [col], :]))
    exp /= len(active)
    discs = []
    if np.shape(P) != exp.shape or not np.allclose(P, exp, atol=1e-9):
        discs.append(D("column_ensemble_not_average_of_members", "members %s: got %s expected %s"
                       % ([(m[0], "drop" if isinstance(m[1], str) else "tsf", m[2]) for m in members], np.asarray(P)[:2].tolist(), exp[:2].tolist())))
    elif not np.allclose(np.asarray(P).sum(axis=1), 1.0, atol=1e-9):
        discs.append(D("proba_rows_do_not_sum_to_one:cec", str(np.asarray(P).sum(axis=1)[:4])))
    return discs


def oracle_boss_votes(case, ctx):
    """BOSSEnsemble whose size is capped: the probabilities are the members' vote fractions.
    Noisy sinusoids of class-specific frequency make window sizes differ in accuracy, so later
    candidates displace earlier members of the full ensemble."""
    from sktime.classification.dictionary_based import BOSSEnsemble

    n, t, k, mes = case["n"], case["t"], case["n_classes"], case["mes"]
    rng = np.random.RandomState(case["seed"] % (2 ** 31 - 1))
    labs = {"int": [0, 1, 2, 3], "int_gap": [-3, 7, 12, 40], "str": ["b", "a", "zz", "c"]}[case["label_kind"]][:k]
    cls = np.array([i % k for i in range(n)])
    tt = np.arange(t)

    def draw_panel(classes):
        return np.round(np.stack([np.sin(tt * (0.3 + 0.15 * c)) + case["noise"] * rng.randn(t) for c in classes])[:, None, :], 6)

    X, Xn = draw_panel(cls), draw_panel([i % k for i in range(case["n_new"])])
    y = np.array([labs[c] for c in cls])
    clf = BOSSEnsemble(max_ensemble_size=mes, random_state=case["rs"])
    ctx.label("max_ensemble_size=%d" % mes)
    r = sut(clf.fit, X, y)
    if isinstance(r, Raised):
        return [D("fit_raised:boss:%s@%s" % (r.type, r.where), r.msg)]
    members = list(clf.classifiers)
    ctx.mark_nontrivial(len(members) == mes)
    discs = []
    if len(members) > mes or len(members) == 0:
        discs.append(D("boss_ensemble_size", "%d members for max_ensemble_size=%d" % (len(members), mes)))
    for what, data in (("training instances", X), ("unseen instances", Xn)):
        P = sut(clf.predict_proba, data)
        if isinstance(P, Raised):
            return discs + [D("apply_raised:boss.predict_proba:%s@%s" % (P.type, P.where), "%s: %s" % (what, P.msg))]
        P = np.asarray(P, dtype=float)
        votes = np.zeros((len(data), k))
        bad = None
        for m in members:
            pm = sut(m.predict, data)
            if isinstance(pm, Raised):
                bad = pm
                break
            for j, c in enumerate(sorted(set(y.tolist()))):
                votes[:, j] += np.asarray(pm) == c
        if bad is not None:
            return discs + [D("apply_raised:boss.member.predict:%s@%s" % (bad.type, bad.where), bad.msg)]
        exp = votes / max(len(members), 1)
        if P.shape != exp.shape or not np.allclose(P.sum(axis=1), 1.0, atol=1e-9):
            discs.append(D("proba_rows_do_not_sum_to_one:boss", "%s, %d members (max_ensemble_size=%d): row sums %s" % (what, len(members), mes, np.round(P.sum(axis=1)[:4], 6).tolist())))
        elif not np.allclose(P, exp, atol=1e-9):
            discs.append(D("boss_proba_not_vote_fractions", "%s: got %s member votes %s" % (what, P[:2].tolist(), exp[:2].tolist())))
        if discs:
            break
    return discs


def oracle_stsf_unbalanced(case, ctx):
    """SupervisedTimeSeriesForest on a larger, strongly unbalanced panel: its class balancing puts
    extra copies of the rare class into the bags, so (with 60 instances) every tree sees every
    class and the probabilities have one column per training class."""
    n, k, t = case["n_train"], 3, case["t"]
    rare = case["rare"]
    counts = [(n - rare) // 2, n - rare - (n - rare) // 2, rare]
    order = {"last": [0, 1, 2], "first": [2, 0, 1], "middle": [0, 2, 1]}[case["rare_position"]]
    cls = np.concatenate([np.full(counts[c], c) for c in order])
    X3 = panelpool.panel_values(case["seed"], n, 1, t)
    for i in range(n):
        X3[i] += 3.0 * cls[i]
    labs = {"int": [0, 1, 2], "str": ["b", "a", "zz"]}[case["label_kind"]]
    y = np.array([labs[c] for c in cls])
    ctx.label("rare_class_%s" % case["rare_position"])
    ctx.mark_nontrivial(True)
    clf = panelpool.build_classifier({"kind": "stsf", "random_state": case["rs"], "n_estimators": 10})
    r = sut(clf.fit, X3, y)
    if isinstance(r, Raised):
        return [D("fit_raised:stsf:%s@%s" % (r.type, r.where), r.msg)]
    Xn = panelpool.panel_values(case["seed"] + 5, 9, 1, t)
    P = sut(clf.predict_proba, Xn)
    if isinstance(P, Raised):
        return [D("apply_raised:stsf.predict_proba:%s@%s" % (P.type, P.where), "rare class of %d in %d instances (%s): %s" % (rare, n, case["rare_position"], P.msg))]
    P = np.asarray(P, dtype=float)
    discs = []
    if P.shape != (9, 3):
        discs.append(D("proba_shape:stsf", "shape %s expected (9, 3)" % (P.shape,)))
    elif not np.allclose(P.sum(axis=1), 1.0, atol=1e-9) or np.any(P < -1e-12):
        discs.append(D("proba_rows_do_not_sum_to_one:stsf", "row sums %s" % P.sum(axis=1)[:4].tolist()))
    pr = sut(clf.predict, Xn)
    if isinstance(pr, Raised):
        discs.append(D("apply_raised:stsf.predict:%s@%s" % (pr.type, pr.where), pr.msg))
    elif not discs:
        cols = sorted(set(y.tolist()))
        for i, lab in enumerate(np.asarray(pr).tolist()):
            if lab not in cols or P[i, cols.index(lab)] < P[i].max() - 1e-9:
                discs.append(D("predict_not_argmax_of_proba:stsf", "instance %d: %r, probabilities %s" % (i, lab, P[i].tolist())))
                break
    return discs


@st.composite
def stsf_cases(draw):
    return {"n_train": draw(st.sampled_from([60, 72])), "t": draw(st.sampled_from([24, 32])), "rare": draw(st.integers(1, 3)),
            "rare_position": draw(st.sampled_from(["last", "last", "first", "middle"])), "seed": draw(st.integers(0, 10 ** 6)),
            "rs": draw(st.integers(0, 100)), "label_kind": draw(st.sampled_from(["int", "str"]))}


@st.composite
def boss_cases(draw):
    return {"n": draw(st.integers(18, 30)), "t": draw(st.sampled_from([32, 40, 48])), "n_classes": draw(st.integers(2, 4)),
            "mes": draw(st.sampled_from([1, 1, 2, 2, 3, 5])), "noise": draw(st.sampled_from([0.5, 0.7, 0.9, 1.1])), "n_new": 8,
            "seed": draw(st.integers(0, 10 ** 6)), "rs": draw(st.integers(0, 100)), "label_kind": draw(st.sampled_from(["int", "int_gap", "str"]))}


@st.composite
def wf_cases(draw):
    kind = draw(st.sampled_from(panelpool.CLASSIFIERS))
    k = draw(st.integers(2, 4))
    return {
        "spec": dict({"kind": kind, "random_state": draw(st.integers(0, 100)), "n_columns": draw(st.integers(1, 2)),
                      "max_ensemble_size": draw(st.sampled_from([2, 3, 4]))},
                     **({"_vsp": True} if draw(st.integers(0, 3)) == 0 else {})),
        "n_classes": k, "n_train": draw(st.integers(2 * k + 2, 14)), "t": draw(st.integers(16, 30)),
        "seed": draw(st.integers(0, 10 ** 6)), "separable": draw(st.booleans()), "prefit": draw(st.integers(0, 3)) == 0, "dup": draw(st.integers(0, 2)) == 0,
        "label_kind": draw(st.sampled_from(["int", "int_gap", "str", "float"])),
        "unbalanced": draw(st.booleans()), "y_as_series": draw(st.booleans()),
        "container": draw(st.sampled_from(["nested", "numpy3d"])),
        "n_new": draw(st.sampled_from([0, 6, 12])), "y_index": draw(st.sampled_from(["default", "offset", "shuffled"])),
    }


@st.composite
def forest_cases(draw):
    return {
        "which": draw(st.sampled_from(["classifier", "classifier", "regressor"])),
        "n_train": draw(st.integers(6, 14)), "n_apply": draw(st.integers(1, 8)), "t": draw(st.integers(8, 40)),
        "n_classes": draw(st.integers(2, 3)), "label_kind": draw(st.sampled_from(["int", "int_gap", "str"])),
        "n_estimators": draw(st.integers(1, 6)), "rs": draw(st.integers(0, 1000)), "seed": draw(st.integers(0, 10 ** 6)),
        "n_jobs": draw(st.sampled_from([1, 1, 2, 3, None])),
        "level": draw(st.sampled_from([0.0, 0.0, 1e3, 1e6, 1e7])), "refit_other_params": draw(st.integers(0, 2)) == 0,
        "int_panel": draw(st.integers(0, 2)) == 0, "dup": draw(st.integers(0, 2)) == 0,
    }


@st.composite
def cec_cases(draw):
    c = draw(st.integers(1, 3))
    members = draw(st.lists(st.fixed_dictionaries({"col": st.integers(0, 2), "mode": st.sampled_from(["est", "est", "est", "drop", "empty"])}),
                            min_size=1, max_size=4))
    return {"c": c, "members": members, "n_train": draw(st.integers(6, 12)), "n_apply": draw(st.integers(1, 4)),
            "t": draw(st.integers(8, 24)), "n_classes": draw(st.integers(2, 3)),
            "label_kind": draw(st.sampled_from(["int", "int_gap", "str"])), "seed": draw(st.integers(0, 10 ** 6)), "by_name": draw(st.booleans())}


def enum_wf_every_kind(tier):
    """Every runnable classifier x label type x {2, 3 classes} x {fresh, refitted} x {with, without
    conflicting duplicates}, on fixed panels (the discrete part of the domain, exhaustively)."""
    import itertools

    for kind, lk, k, prefit, dup in itertools.product(panelpool.CLASSIFIERS, ["int", "int_gap", "str", "float"], [2, 3, 4], [False, True], [False, True]):
        yield {"spec": {"kind": kind, "random_state": 7, "n_columns": 2 if kind == "cec" else 1, "max_ensemble_size": 2}, "n_classes": k,
               "n_train": 10 if k < 4 else 12, "t": 24,
               "seed": 1234 + k, "separable": not dup, "prefit": prefit, "dup": dup, "label_kind": lk, "unbalanced": k == 3,
               "y_as_series": lk == "str", "container": "nested" if prefit else "numpy3d", "n_new": 12,
               "y_index": ["default", "offset", "shuffled"][(k + int(prefit) + int(dup)) % 3]}


def enum_tde(tier):
    """The temporal dictionary ensemble with more candidate parameter sets than places in the
    ensemble (members get replaced during fit), equal-width binning only (see panelpool)."""
    for seed in ((1, 2, 3) if tier == "quick" else range(1, 13)):
        for k, lk in ((2, "str"), (3, "int_gap")):
            yield {"spec": {"kind": "tde", "random_state": seed, "n_parameter_samples": 12, "max_ensemble_size": 3}, "n_classes": k,
                   "n_train": 12, "t": 32, "seed": 500 + seed, "separable": seed % 2 == 0, "prefit": False, "dup": False, "label_kind": lk,
                   "unbalanced": False, "y_as_series": False, "container": "numpy3d", "n_new": 6, "y_index": "default"}


def subchecks():
    return [
        SubCheck("temporal_dictionary_ensemble", oracle_wellformed, enumerate_cases=enum_tde, shards_quick=6, shards_thorough=12, exhaustive=True),
        SubCheck("well_formed_every_kind", oracle_wellformed, enumerate_cases=enum_wf_every_kind, shards_quick=16, shards_thorough=16, exhaustive=True),
        SubCheck("well_formed", oracle_wellformed, wf_cases(), quick=360, thorough=5000, shards_quick=12, shards_thorough=16),
        SubCheck("stsf_unbalanced", oracle_stsf_unbalanced, stsf_cases(), quick=40, thorough=400, shards_quick=8, shards_thorough=16),
        SubCheck("boss_vote_fractions", oracle_boss_votes, boss_cases(), quick=96, thorough=1500, shards_quick=12, shards_thorough=16),
        SubCheck("forest_average_of_trees", oracle_forest, forest_cases(), quick=200, thorough=4000, shards_quick=2, shards_thorough=8),
        SubCheck("column_ensemble_average", oracle_column_ensemble, cec_cases(), quick=200, thorough=3000, shards_quick=2, shards_thorough=8),
    ]


def _sel_nan(case, disc):
    return "nan" in disc["detail"].lower() or "cannot be empty" in disc["detail"]


def _sel_small_training_set(case, disc):
    return int(case.get("n_train") or case.get("n") or 0) <= 20


SELECTORS = {"nan_probabilities": _sel_nan, "small_training_set": _sel_small_training_set}
