"""Panel data builders and pools of runnable panel estimators (JSON specs -> objects)."""
import numpy as np
import pandas as pd
from hypothesis import strategies as st


# ----------------------------------------------------------------------------- data
def panel_values(seed, n, c, t, kind="walk"):
    """Deterministic (n, c, t) array from an integer seed (no global RNG)."""
    rng = np.random.RandomState(seed % (2 ** 31 - 1))
    X = rng.normal(size=(n, c, t))
    if kind == "walk":
        X = X.cumsum(axis=2)
    return np.round(X, 6)


def to_nested(X3, cells="series", names=None):
    n, c, t = X3.shape
    names = names or ["dim_%d" % j for j in range(c)]
    data = {}
    for j in range(c):
        col = []
        for i in range(n):
            col.append(pd.Series(X3[i, j, :].copy()) if cells == "series" else X3[i, j, :].copy())
        data[names[j]] = col
    return pd.DataFrame(data)


def labels_for(n, label_kind, n_classes=2, balanced=True, seed=0):
    pools = {
        "int": [0, 1, 2, 3],
        "int_gap": [-3, 7, 12, 40],
        "str": ["b", "a", "zz", "c"],
        "float": [0.5, -1.5, 2.25, 10.0],
    }
    labs = pools[label_kind][:n_classes]
    if balanced:
        y = [labs[i % n_classes] for i in range(n)]
    else:
        # unbalanced but every class present at least twice where possible
        y = [labs[0]] * n
        k = 1
        for i in range(n_classes - 1):
            y[k] = labs[i + 1]
            y[k + 1 if k + 1 < n else k] = labs[i + 1]
            k += 2
    return np.array(y)


def separable_panel(seed, n, c, t, n_classes):
    """Panel whose class is readable from the series level; returns (X3, class_index)."""
    X = panel_values(seed, n, c, t, kind="noise") * 0.2
    cls = np.array([i % n_classes for i in range(n)])
    for i in range(n):
        X[i] += 10.0 * cls[i] + np.linspace(0, 1 + cls[i], t)
    return X, cls


def two_frequency_panel(seed, n, t, noise, test_noise, n_test):
    """Two classes told apart by the frequency of a sinusoid: several dictionary word lengths
    reach the same train accuracy; noisy test instances make ensemble members disagree."""
    rng = np.random.RandomState(seed % (2 ** 31 - 1))
    tt = np.arange(t)
    cls = np.array([i % 2 for i in range(n)])
    X = rng.normal(scale=noise, size=(n, 1, t))
    X[cls == 0, 0, :] += np.sin(tt / 3.0)
    X[cls == 1, 0, :] += np.sin(tt / 1.5)
    Xt = rng.normal(scale=test_noise, size=(n_test, 1, t))
    Xt[::2, 0, :] += np.sin(tt / 3.0)
    Xt[1::2, 0, :] += np.sin(tt / 1.5)
    return np.round(X, 6), cls, np.round(Xt, 6)


# ----------------------------------------------------------------------------- classifiers / regressors
CLASSIFIERS = ("tsf", "rise", "stsf", "boss", "iboss", "cboss", "muse", "itde", "cec")
FAST_CLASSIFIERS = ("tsf", "rise", "boss", "iboss", "cboss", "itde", "cec")


def build_classifier(spec):
    if spec.get("_vsp"):
        from harness.pools import via_set_params

        return via_set_params(build_classifier({k: v for k, v in spec.items() if k != "_vsp"}))
    k = spec["kind"]
    rs = spec.get("random_state", 0)
    nj = spec.get("n_jobs", 1)
    if k == "tsf":
        from sktime.classification.interval_based import TimeSeriesForestClassifier

        return TimeSeriesForestClassifier(n_estimators=spec.get("n_estimators", 4), random_state=rs, n_jobs=nj)
    if k == "rise":
        from sktime.classification.interval_based import RandomIntervalSpectralForest

        return RandomIntervalSpectralForest(n_estimators=spec.get("n_estimators", 4), random_state=rs, n_jobs=nj)
    if k == "stsf":
        from sktime.classification.interval_based import SupervisedTimeSeriesForest

        return SupervisedTimeSeriesForest(n_estimators=spec.get("n_estimators", 3), random_state=rs, n_jobs=nj)
    if k == "boss":
        from sktime.classification.dictionary_based import BOSSEnsemble

        return BOSSEnsemble(max_ensemble_size=spec.get("max_ensemble_size", 3), random_state=rs, n_jobs=nj)
    if k == "iboss":
        from sktime.classification.dictionary_based import IndividualBOSS

        return IndividualBOSS(window_size=spec.get("window_size", 8), word_length=4, random_state=rs, n_jobs=nj)
    if k == "cboss":
        from sktime.classification.dictionary_based import ContractableBOSS

        return ContractableBOSS(n_parameter_samples=4, max_ensemble_size=2, random_state=rs, n_jobs=nj)
    if k == "muse":
        from sktime.classification.dictionary_based import MUSE

        return MUSE(random_state=rs, window_inc=4)
    if k == "itde":
        from sktime.classification.dictionary_based import IndividualTDE

        return IndividualTDE(window_size=8, word_length=4, random_state=rs)
    if k == "cec":
        from sktime.classification.compose import ColumnEnsembleClassifier
        from sktime.classification.interval_based import TimeSeriesForestClassifier

        ncol = spec.get("n_columns", 1)
        ests = [("m%d" % j, TimeSeriesForestClassifier(n_estimators=3, random_state=rs + j), [j]) for j in range(ncol)]
        return ColumnEnsembleClassifier(ests)
    if k == "tde":
        # (not in CLASSIFIERS: its information-gain binning hands a float max_depth to the tree,
        # which scikit-learn 1.7 refuses; the equal-width binning variant alone runs here)
        from sktime.classification.dictionary_based import TemporalDictionaryEnsemble

        est = TemporalDictionaryEnsemble(n_parameter_samples=spec.get("n_parameter_samples", 12), max_ensemble_size=spec.get("max_ensemble_size", 3),
                                         randomly_selected_params=spec.get("randomly_selected_params", 5), random_state=rs)
        est.igb_options = [False]
        return est
    if k == "tsfr":
        from sktime.regression.interval_based import TimeSeriesForestRegressor

        return TimeSeriesForestRegressor(n_estimators=spec.get("n_estimators", 4), random_state=rs, n_jobs=nj)
    raise ValueError(k)


def multivariate_ok(kind):
    return kind in ("muse", "cec", "itde")


def min_timepoints(kind):
    return {"boss": 20, "iboss": 16, "cboss": 20, "muse": 20, "itde": 16, "rise": 20, "stsf": 20}.get(kind, 8)


# ----------------------------------------------------------------------------- panel transformers
UNIVARIATE_ONLY = ("sax", "sfa", "iseg", "riseg", "swseg", "rife", "plateau", "pca", "cst")
PANEL_TRANSFORMERS = ("pad", "trunc", "interp", "tab", "cc", "paa", "sax", "iseg", "riseg", "swseg", "rife",
                      "dslope", "slope", "dwt", "hog", "pca", "rocket", "s2srow", "s2prow", "plateau")


def build_panel_transformer(spec):
    if spec.get("_vsp"):
        from harness.pools import via_set_params

        return via_set_params(build_panel_transformer({k: v for k, v in spec.items() if k != "_vsp"}))
    k = spec["kind"]
    rs = spec.get("random_state", 0)
    if k == "pad":
        from sktime.transformations.panel.padder import PaddingTransformer

        return PaddingTransformer(pad_length=spec.get("pad_length"), fill_value=spec.get("fill_value", 0))
    if k == "trunc":
        from sktime.transformations.panel.truncation import TruncationTransformer

        return TruncationTransformer(lower=spec.get("lower"), upper=spec.get("upper"))
    if k == "interp":
        from sktime.transformations.panel.interpolate import TSInterpolator

        return TSInterpolator(spec.get("length", 10))
    if k == "tab":
        from sktime.transformations.panel.reduce import Tabularizer

        return Tabularizer()
    if k == "cc":
        from sktime.transformations.panel.compose import ColumnConcatenator

        return ColumnConcatenator()
    if k == "paa":
        from sktime.transformations.panel.dictionary_based import PAA

        return PAA(num_intervals=spec.get("num_intervals", 4))
    if k == "sax":
        from sktime.transformations.panel.dictionary_based import SAX

        return SAX(word_length=4, window_size=8)
    if k == "iseg":
        from sktime.transformations.panel.segment import IntervalSegmenter

        return IntervalSegmenter(spec.get("intervals", 3))
    if k == "riseg":
        from sktime.transformations.panel.segment import RandomIntervalSegmenter

        return RandomIntervalSegmenter(n_intervals=spec.get("n_intervals", 3), min_length=spec.get("min_length"), random_state=rs)
    if k == "swseg":
        from sktime.transformations.panel.segment import SlidingWindowSegmenter

        return SlidingWindowSegmenter(spec.get("window_length", 5))
    if k == "rife":
        from sktime.transformations.panel.summarize import RandomIntervalFeatureExtractor

        return RandomIntervalFeatureExtractor(n_intervals=spec.get("n_intervals", 3), min_length=spec.get("min_length"), random_state=rs,
                                              features=[np.mean, np.std, np.max] if spec.get("more_features") else None)
    if k == "dslope":
        from sktime.transformations.panel.summarize import DerivativeSlopeTransformer

        return DerivativeSlopeTransformer()
    if k == "plateau":
        from sktime.transformations.panel.summarize import PlateauFinder

        return PlateauFinder()
    if k == "slope":
        from sktime.transformations.panel.slope import SlopeTransformer

        return SlopeTransformer(spec.get("num_intervals", 3))
    if k == "dwt":
        from sktime.transformations.panel.dwt import DWTTransformer

        return DWTTransformer()
    if k == "hog":
        from sktime.transformations.panel.hog1d import HOG1DTransformer

        return HOG1DTransformer()
    if k == "pca":
        from sktime.transformations.panel.pca import PCATransformer

        return PCATransformer(n_components=2)
    if k == "rocket":
        from sktime.transformations.panel.rocket import Rocket

        return Rocket(num_kernels=spec.get("num_kernels", 10), random_state=rs)
    if k == "cst":
        from sktime.transformations.panel.shapelets import ContractedShapeletTransform

        return ContractedShapeletTransform(time_contract_in_mins=0.003, random_state=rs)
    if k == "s2srow":
        from sktime.transformations.panel.compose import SeriesToSeriesRowTransformer
        from sktime.transformations.series.cos import CosineTransformer

        return SeriesToSeriesRowTransformer(CosineTransformer())
    if k == "s2prow":
        from sktime.transformations.panel.compose import SeriesToPrimitivesRowTransformer
        from sktime.transformations.series.summarize import MeanTransformer

        return SeriesToPrimitivesRowTransformer(MeanTransformer())
    raise ValueError(k)


# ----------------------------------------------------------------------------- series transformers
SERIES_TRANSFORMERS = ("acf", "pacf", "cos", "imputer", "hampel", "boxcox", "log", "detrend", "deseason",
                       "cond_deseason", "scaler", "passthrough", "mean")


def build_series_transformer(spec):
    if spec.get("_vsp"):
        from harness.pools import via_set_params

        return via_set_params(build_series_transformer({k: v for k, v in spec.items() if k != "_vsp"}))
    from harness import pools

    k = spec["kind"]
    if k == "acf":
        from sktime.transformations.series.acf import AutoCorrelationTransformer

        return AutoCorrelationTransformer(n_lags=spec.get("n_lags", 4))
    if k == "pacf":
        from sktime.transformations.series.acf import PartialAutoCorrelationTransformer

        return PartialAutoCorrelationTransformer(n_lags=spec.get("n_lags", 3))
    if k == "cos":
        from sktime.transformations.series.cos import CosineTransformer

        return CosineTransformer()
    if k == "hampel":
        from sktime.transformations.series.outlier_detection import HampelFilter

        return HampelFilter(window_length=spec.get("window_length", 5), n_sigma=spec.get("n_sigma", 3), return_bool=spec.get("return_bool", False))
    if k == "mean":
        from sktime.transformations.series.summarize import MeanTransformer

        return MeanTransformer()
    if k == "imputer":
        from sktime.transformations.series.impute import Imputer

        return Imputer(method=spec.get("method", "mean"), value=spec.get("value"), random_state=spec.get("random_state"),
                       missing_values=spec.get("missing_values"))
    return pools.build_transformer(spec)


# one representative configuration of every series transformer (for the exhaustive "every kind" sub-checks)
SERIES_TRANSFORMER_ENUM = [
    {"kind": "acf", "n_lags": 3}, {"kind": "pacf", "n_lags": 2}, {"kind": "cos"}, {"kind": "mean"},
    {"kind": "imputer", "method": "mean"}, {"kind": "imputer", "method": "drift"}, {"kind": "imputer", "method": "linear"},
    {"kind": "imputer", "method": "nearest"}, {"kind": "imputer", "method": "ffill"}, {"kind": "imputer", "method": "random", "random_state": 3},
    {"kind": "imputer", "method": "mean", "missing_values": -999.0}, {"kind": "imputer", "method": "linear", "missing_values": -999.0},
    {"kind": "hampel", "window_length": 5, "n_sigma": 2}, {"kind": "hampel", "window_length": 4, "n_sigma": 1},
    {"kind": "boxcox", "method": "mle"}, {"kind": "boxcox", "method": "pearsonr"}, {"kind": "boxcox", "method": "pearsonr", "bounds": [0.0, 2.0]}, {"kind": "log"}, {"kind": "detrend", "degree": 1}, {"kind": "detrend", "degree": 1, "default": True},
    {"kind": "deseason", "sp": 3, "model": "additive"}, {"kind": "deseason", "sp": 4, "model": "multiplicative"},
    {"kind": "cond_deseason", "sp": 3, "model": "additive"}, {"kind": "scaler", "which": "standard"}, {"kind": "scaler", "which": "minmax"},
    {"kind": "passthrough", "inner": {"kind": "log"}, "passthrough": False}, {"kind": "passthrough", "inner": {"kind": "log"}, "passthrough": True},
]


series_transformer_specs = st.one_of(
    st.builds(lambda n: {"kind": "acf", "n_lags": n}, st.integers(1, 5)),
    st.builds(lambda n: {"kind": "pacf", "n_lags": n}, st.integers(1, 4)),
    st.just({"kind": "cos"}),
    st.builds(lambda m: {"kind": "imputer", "method": m}, st.sampled_from(["mean", "median", "ffill", "bfill", "pad", "backfill", "drift", "linear", "nearest"])),
    st.builds(lambda r: {"kind": "imputer", "method": "random", "random_state": r}, st.integers(0, 50)),
    # gaps marked by a placeholder value instead of NaN
    st.builds(lambda m: {"kind": "imputer", "method": m, "missing_values": -999.0}, st.sampled_from(["mean", "median", "ffill", "drift", "linear", "nearest"])),
    st.builds(lambda w, s: {"kind": "hampel", "window_length": w, "n_sigma": s}, st.integers(3, 7), st.sampled_from([1, 2, 3])),
    st.builds(lambda m: {"kind": "boxcox", "method": m}, st.sampled_from(["mle", "pearsonr"])),
    st.just({"kind": "log"}),
    st.builds(lambda d: {"kind": "detrend", "degree": d}, st.integers(0, 3)),
    st.just({"kind": "detrend", "degree": 1, "default": True}),
    st.builds(lambda sp, m: {"kind": "deseason", "sp": sp, "model": m}, st.integers(1, 6), st.sampled_from(["additive", "multiplicative"])),
    st.builds(lambda sp, m: {"kind": "cond_deseason", "sp": sp, "model": m}, st.integers(2, 6), st.sampled_from(["additive", "multiplicative"])),
    st.builds(lambda w: {"kind": "scaler", "which": w}, st.sampled_from(["standard", "minmax"])),
    st.builds(lambda p: {"kind": "passthrough", "inner": {"kind": "log"}, "passthrough": p}, st.booleans()),
    st.just({"kind": "mean"}),
)
