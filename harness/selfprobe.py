"""Unit probes of the compatibility layer against its documented 2021 behaviour (exit 2 on failure)."""
import sys


def main():
    from harness import load

    load.boot()
    import numpy as np
    import pandas as pd

    ok = []

    def probe(name, cond):
        ok.append((name, bool(cond)))

    probe("np.float", np.float is float and np.int is int)
    i = pd.Int64Index([3, 1, 2])
    probe("Int64Index call", type(i) is pd.Index and i.dtype == "int64" and list(i) == [3, 1, 2])
    probe("Int64Index isinstance", isinstance(i, pd.Int64Index) and isinstance(pd.RangeIndex(3), pd.Int64Index)
          and not isinstance(pd.Index([1.5]), pd.Int64Index) and not isinstance(pd.period_range("2000", periods=2, freq="M"), pd.Int64Index))
    probe("Int64Index type-eq", type(i) == pd.Int64Index and type(i) in (pd.Int64Index, pd.RangeIndex)
          and type(pd.RangeIndex(3)) != pd.Int64Index and type(pd.period_range("2000", periods=2, freq="M")) not in (pd.Int64Index, pd.RangeIndex))
    try:
        pd.Int64Index([1.5, 2.5], dtype=int)
        probe("Int64Index fractional rejected", False)
    except (ValueError, TypeError):
        probe("Int64Index fractional rejected", True)
    probe("is_monotonic", pd.Index([1, 2, 2]).is_monotonic and not pd.Index([2, 1]).is_monotonic)
    s = pd.Series([1.0, 2.0], index=[0, 1]).append(pd.Series([3.0], index=[2]))
    probe("Series.append", list(s.index) == [0, 1, 2] and list(s) == [1.0, 2.0, 3.0])
    df = pd.DataFrame().append({"a": 1, "b": 2.5}, ignore_index=True)
    df = df.append({"a": 2, "b": 3.5}, ignore_index=True)
    probe("DataFrame.append dict", df.shape == (2, 2) and list(df["b"]) == [2.5, 3.5])
    from sklearn.metrics import mean_squared_error

    probe("mse squared=False", abs(mean_squared_error([0, 0], [3, 4], squared=False) - (12.5 ** 0.5)) < 1e-12)
    r = mean_squared_error([[0, 0], [0, 0]], [[3, 1], [3, 1]], squared=False)
    probe("rmse multioutput avg of roots", abs(r - 2.0) < 1e-12)
    from sklearn.metrics._regression import _check_reg_targets

    t = _check_reg_targets(np.array([1.0, 2.0]), np.array([1.0, 3.0]), "uniform_average")
    probe("_check_reg_targets 3-arg", t[0] == "continuous" and t[1].shape == (2, 1))
    from sklearn.ensemble._forest import ForestRegressor
    from sklearn.tree import DecisionTreeRegressor

    class F(ForestRegressor):
        def __init__(self):
            super().__init__(base_estimator=DecisionTreeRegressor(), n_estimators=2)

    probe("forest base_estimator", isinstance(F().base_estimator, DecisionTreeRegressor))
    import numba

    probe("numba", numba.njit(lambda x: x + 1)(1) == 2 and numba.njit(cache=True)(lambda x: x)(3) == 3)
    from scipy.stats.morestats import _boxcox_conf_interval  # noqa: F401
    from sktime.forecasting.base import ForecastingHorizon

    probe("fh iter", list(ForecastingHorizon([2, 1])) == [1, 2])
    bad = [n for n, c in ok if not c]
    if bad:
        sys.stderr.write("HARNESS-ERROR: compat self-probe failed: %s\n" % bad)
        return 2
    print("compat self-probe: %d probes ok" % len(ok))
    return 0


if __name__ == "__main__":
    sys.exit(main())
