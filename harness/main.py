"""Entry point: python -m harness.main <ID> [--tier quick|thorough] [--replay FILE] [--only GLOB]"""
import argparse
import glob
import importlib
import os
import sys
import traceback

from harness import load


def find_module(prop_id):
    root = os.path.join(load.VERIF_ROOT, "props")
    hits = sorted(glob.glob(os.path.join(root, prop_id.lower() + "_*.py")))
    if not hits:
        raise load.HarnessError("no property module for %s" % prop_id)
    return "props." + os.path.basename(hits[0])[:-3]


def main(argv=None):
    load.ensure_env()
    ap = argparse.ArgumentParser()
    ap.add_argument("prop")
    ap.add_argument("--tier", default=os.environ.get("VERIF_TIER") or "quick")
    ap.add_argument("--replay")
    ap.add_argument("--only", action="append")
    ap.add_argument("--jobs", type=int, default=0)
    ap.add_argument("--seed", type=int, default=None)
    a = ap.parse_args(argv)
    if a.tier not in ("quick", "thorough"):
        a.tier = "quick"
    seed = a.seed
    if seed is None:
        try:
            seed = int(os.environ.get("VERIF_SEED", "1"))
        except ValueError:
            seed = 1
    prop = a.prop.upper()
    try:
        modname = find_module(prop)
        need_stubs = prop == "C04"
        try:
            load.boot(stubs=need_stubs)
        except load.HarnessError:
            raise
        except Exception as e:  # the package itself fails to import
            from harness import runner

            if runner.innermost_repo_frame(e) is not None:
                path = _write_import_replay(prop, e)
                print("  import of sktime failed: %r" % (e,))
                print("VIOLATION property=%s replay=%s" % (prop, path))
                return 1
            raise
        from harness import runner

        try:
            mod = importlib.import_module(modname)
        except load.HarnessError:
            raise
        except Exception as e:
            if runner.innermost_repo_frame(e) is not None:
                path = _write_import_replay(prop, e)
                print("  import of an anchored module failed: %r" % (e,))
                print("VIOLATION property=%s replay=%s" % (prop, path))
                return 1
            raise
        if a.replay:
            return runner.replay(mod, a.replay, a.tier)
        return runner.run_property(mod, a.tier, seed, only=a.only, jobs=a.jobs or None)
    except load.HarnessError as e:
        sys.stderr.write("HARNESS-ERROR: %s\n" % e)
        return 2
    except Exception:
        sys.stderr.write("HARNESS-ERROR: %s\n" % traceback.format_exc())
        return 2


def _write_import_replay(prop, e):
    import json

    d = os.path.join(load.VERIF_ROOT, "replays", prop)
    os.makedirs(d, exist_ok=True)
    p = os.path.join(d, "import-failure.json")
    with open(p, "w") as f:
        json.dump(
            {
                "property": prop,
                "subcheck": "__import__",
                "case": {},
                "discrepancies": [
                    {"kind": "import_failure", "detail": traceback.format_exc()[-1500:]}
                ],
            },
            f,
            indent=1,
        )
    return os.path.relpath(p, load.VERIF_ROOT)


if __name__ == "__main__":
    sys.exit(main())
