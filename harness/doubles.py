"""Recording / counting / adapting estimators used by several checks."""
import numpy as np
from sklearn.base import BaseEstimator as SkBase
from sklearn.base import RegressorMixin, clone

# a per-case log; oracles reset it with LOG.clear()
LOG = []


class ScalarOut(RegressorMixin, SkBase):
    """Clonable wrapper: ``predict`` on one row returns a 0-d value.

    numpy >= 2 refuses ``a[i] = array([v])``, which sktime 0.6.0's reducers do with every
    scikit-learn regressor (DESIGN 0.2).  The wrapped regressor is untouched otherwise.
    """

    def __init__(self, regressor=None):
        self.regressor = regressor

    def fit(self, X, y):
        self.regressor_ = clone(self.regressor).fit(X, y)
        return self

    def predict(self, X):
        out = np.asarray(self.regressor_.predict(X))
        if out.ndim == 1 and out.shape[0] == 1:
            return out[0]
        return out


def _lin(X2d, tag):
    """Injective-ish deterministic function of a row: weights are powers of an irrational."""
    X2d = np.asarray(X2d, dtype=float)
    w = np.array([0.37 * (1.0 + 0.618 * j) for j in range(X2d.shape[1])])
    return X2d @ w + 0.001 * tag + 1.0


class RecordingRegressor(RegressorMixin, SkBase):
    """Tabular regressor logging every fit/predict argument into doubles.LOG.

    ``predict`` returns a fixed injective linear function of the row (a scalar for one
    row), or for multi-output targets one value per output column.
    """

    def __init__(self, tag=0):
        self.tag = tag

    def fit(self, X, y):
        X = np.array(X, dtype=float, copy=True)
        y = np.array(y, dtype=float, copy=True)
        self.n_out_ = 1 if y.ndim == 1 else y.shape[1]
        self.fit_id_ = len(LOG)
        LOG.append(("fit", self.tag, X, y))
        return self

    def predict(self, X):
        X = np.array(X, dtype=float, copy=True)
        LOG.append(("predict", self.tag, getattr(self, "fit_id_", None), X))
        X2 = X.reshape(X.shape[0], -1)
        if self.n_out_ == 1:
            out = _lin(X2, self.tag)
            if out.shape[0] == 1:
                return out[0]
            return out
        return np.column_stack([_lin(X2, self.tag + 7 * k) for k in range(self.n_out_)])


def make_recording_ts_regressor():
    """The same as RecordingRegressor but as an sktime BaseRegressor (3-D input)."""
    from sktime.regression.base import BaseRegressor

    class RecordingTSRegressor(BaseRegressor):
        def __init__(self, tag=0):
            self.tag = tag
            super().__init__()

        def fit(self, X, y):
            X = np.array(X, dtype=float, copy=True)
            y = np.array(y, dtype=float, copy=True)
            self.n_out_ = 1 if y.ndim == 1 else y.shape[1]
            self.fit_id_ = len(LOG)
            LOG.append(("fit", self.tag, X, y))
            self._is_fitted = True
            return self

        def predict(self, X):
            X = np.array(X, dtype=float, copy=True)
            LOG.append(("predict", self.tag, getattr(self, "fit_id_", None), X))
            X2 = X.reshape(X.shape[0], -1)
            if self.n_out_ == 1:
                out = _lin(X2, self.tag)
                if out.shape[0] == 1:
                    return out[0]
                return out
            return np.column_stack(
                [_lin(X2, self.tag + 7 * k) for k in range(self.n_out_)]
            )

    return RecordingTSRegressor


_TS_CLS = None


def RecordingTSRegressor(tag=0):
    global _TS_CLS
    if _TS_CLS is None:
        _TS_CLS = make_recording_ts_regressor()
        # make it picklable / clonable by name
        _TS_CLS.__module__ = __name__
        _TS_CLS.__qualname__ = "_RecordingTSRegressorImpl"
        globals()["_RecordingTSRegressorImpl"] = _TS_CLS
    return _TS_CLS(tag=tag)


_TS_DUAL_CLS = None


def RecordingTSRegressorDual(tag=0):
    """The time-series regressor double, additionally inheriting from scikit-learn's
    RegressorMixin - as sktime's own TimeSeriesForestRegressor does."""
    global _TS_DUAL_CLS
    if _TS_DUAL_CLS is None:
        base = make_recording_ts_regressor()
        _TS_DUAL_CLS = type("_RecordingTSRegressorDualImpl", (RegressorMixin, base), {"__module__": __name__})
        globals()["_RecordingTSRegressorDualImpl"] = _TS_DUAL_CLS
    return _TS_DUAL_CLS(tag=tag)


_FC_CLS = None


def recording_forecaster_class():
    """A genuine _SktimeForecaster subclass that logs the index range of every y/X it is
    given in fit/update and the horizon of every predict, and forecasts a deterministic,
    deliberately biased function of the data seen."""
    global _FC_CLS
    if _FC_CLS is not None:
        return _FC_CLS
    import pandas as pd

    from sktime.forecasting.base._sktime import (
        _OptionalForecastingHorizonMixin,
        _SktimeForecaster,
    )

    class RecordingForecaster(_OptionalForecastingHorizonMixin, _SktimeForecaster):
        def __init__(self, tag=0, bias=0.25):
            self.tag = tag
            self.bias = bias
            super().__init__()

        def fit(self, y, X=None, fh=None):
            self._set_y_X(y, X)
            self._set_fh(fh)
            LOG.append(
                (
                    "fit",
                    self.tag,
                    y.copy(),
                    None if X is None else X.copy(),
                    None if fh is None else fh,
                )
            )
            self.mean_ = float(np.mean(y.to_numpy()))
            self.last_ = float(y.to_numpy()[-1])
            self.nseen_ = len(y)
            self._is_fitted = True
            return self

        def update(self, y, X=None, update_params=True):
            self.check_is_fitted()
            self._update_y_X(y, X)
            LOG.append(
                ("update", self.tag, y.copy(), None if X is None else X.copy(), update_params)
            )
            if update_params:
                self.mean_ = float(np.mean(self._y.to_numpy()))
                self.nseen_ = len(self._y)
            self.last_ = float(y.to_numpy()[-1]) if len(y) else self.last_
            return self

        def _predict(self, fh, X=None, return_pred_int=False, alpha=0.05):
            rel = fh.to_relative(self.cutoff).to_numpy()
            LOG.append(("predict", self.tag, self.cutoff, [int(v) for v in rel], None if X is None else X.copy()))
            xbias = 0.0
            if X is not None:
                xbias = 0.01 * float(np.sum(X.to_numpy()))
            vals = (
                0.5 * self.mean_
                + 0.5 * self.last_
                + self.bias * (1.0 + rel)
                + 0.001 * self.nseen_
                + xbias
            )
            return pd.Series(vals, index=fh.to_absolute(self.cutoff).to_pandas())

    RecordingForecaster.__module__ = __name__
    RecordingForecaster.__qualname__ = "_RecordingForecasterImpl"
    globals()["_RecordingForecasterImpl"] = RecordingForecaster
    _FC_CLS = RecordingForecaster
    return _FC_CLS


# ----------------------------------------------------------------------------- C19 doubles
class InjectedFault(RuntimeError):
    """Raised by a counting estimator at the configured call number."""


CALLS = {"n": 0, "fits": 0, "predicts": 0, "fail_at": None, "log": []}


def reset_calls(fail_at=None):
    CALLS.update({"n": 0, "fits": 0, "predicts": 0, "fail_at": fail_at, "log": []})


def _tick(kind, tag):
    CALLS["n"] += 1
    CALLS["fits" if kind == "fit" else "predicts"] += 1
    CALLS["log"].append((kind, tag))
    if CALLS["fail_at"] is not None and CALLS["n"] == CALLS["fail_at"]:
        raise InjectedFault("injected fault at call %d (%s of %s)" % (CALLS["n"], kind, tag))


def _level(X):
    """Mean level of each instance of a nested frame / 3-d array (first column)."""
    import pandas as pd

    if isinstance(X, pd.DataFrame):
        # over ALL columns handed in, weighted by column position, so that a wrong feature
        # selection or a wrong feature order is visible (one column: its plain mean)
        w = np.array([1.0 + 0.5 * j for j in range(X.shape[1])])
        return np.array([float(np.sum([w[j] * np.mean(np.asarray(X.iloc[i, j], dtype=float)) for j in range(X.shape[1])]) / w.sum())
                         for i in range(len(X))])
    X = np.asarray(X, dtype=float)
    return X.reshape(X.shape[0], -1).mean(axis=1)


from sklearn.base import ClassifierMixin  # noqa: E402


class CountingClassifier(ClassifierMixin, SkBase):
    """Deterministic nearest-class-mean classifier on the series level; counts fit/predict
    calls globally and raises InjectedFault at the configured call."""

    def __init__(self, tag="c", shift=0.0):
        self.tag = tag
        self.shift = shift

    def fit(self, X, y):
        _tick("fit", self.tag)
        lv = _level(X)
        y = np.asarray(y)
        self.classes_ = np.array(sorted(set(y.tolist())))
        self.means_ = np.array([lv[y == c].mean() for c in self.classes_])
        # deliberately stateful across fits (like warm_start): only a fresh clone per fold
        # predicts as the reference does
        self.n_fits_ = getattr(self, "n_fits_", 0) + 1
        return self

    def predict(self, X):
        _tick("predict", self.tag)
        lv = _level(X) + self.shift
        out = self.classes_[np.argmin(np.abs(lv[:, None] - self.means_[None, :]), axis=1)]
        if self.n_fits_ > 1:
            out = self.classes_[::-1][np.argmin(np.abs(lv[:, None] - self.means_[None, :]), axis=1)]
        return out


class CountingRegressor(RegressorMixin, SkBase):
    def __init__(self, tag="r", shift=0.0):
        self.tag = tag
        self.shift = shift

    def fit(self, X, y):
        _tick("fit", self.tag)
        lv = _level(X)
        y = np.asarray(y, dtype=float)
        A = np.column_stack([np.ones(len(lv)), lv])
        self.coef_, *_ = np.linalg.lstsq(A, y, rcond=None)
        self.n_fits_ = getattr(self, "n_fits_", 0) + 1
        return self

    def predict(self, X):
        _tick("predict", self.tag)
        lv = _level(X)
        return np.round(self.coef_[0] + self.coef_[1] * lv + self.shift + 1000.0 * (self.n_fits_ - 1), 6)
