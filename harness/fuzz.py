"""Coverage-guided driving of a sub-check's Hypothesis test with atheris / libFuzzer.

    python -m harness.fuzz <ID> <subcheck> --runs N --seed S --out DIR

The same strategy and oracle as in the Hypothesis tiers are used; libFuzzer's coverage
feedback (from the instrumented sktime modules) steers `test.hypothesis.fuzz_one_input`.
A violation writes a replay file (the decoded, JSON case) and makes the process exit 1.
Statistics are flushed to DIR/stats.json every 200 executions (atexit does not run under
libFuzzer).
"""
import argparse
import json
import os
import sys


def main():
    ap = argparse.ArgumentParser()
    ap.add_argument("prop")
    ap.add_argument("subcheck")
    ap.add_argument("--runs", type=int, default=20000)
    ap.add_argument("--seed", type=int, default=1)
    ap.add_argument("--out", required=True)
    a = ap.parse_args()
    here = os.path.dirname(os.path.dirname(os.path.abspath(__file__)))
    sys.path.insert(0, here)
    deps = os.path.join(here, ".deps")
    if os.path.isdir(deps):
        sys.path.append(deps)
    try:
        import atheris
    except Exception as e:  # noqa: BLE001
        sys.stderr.write("HARNESS-ERROR: atheris not importable: %r\n" % (e,))
        return 3
    os.makedirs(a.out, exist_ok=True)
    corpus = os.path.join(a.out, "corpus")
    os.makedirs(corpus, exist_ok=True)
    from harness import load

    with atheris.instrument_imports(include=["sktime"]):
        load.boot(stubs=(a.prop.upper() == "C04"))
        import importlib

        from harness import main as hmain

        mod = importlib.import_module(hmain.find_module(a.prop.upper()))
    from harness import runner

    sc = {s.name: s for s in mod.subchecks()}[a.subcheck]
    selectors = getattr(mod, "SELECTORS", {})
    open_entries, _ = runner.load_known_findings(mod.PROPERTY_ID)
    import hypothesis
    from hypothesis import HealthCheck, given, settings

    stats = {"executions": 0, "nontrivial_keys": set(), "known": 0, "violation": None}

    def flush():
        with open(os.path.join(a.out, "stats.json"), "w") as f:
            json.dump({"executions": stats["executions"], "distinct_nontrivial": len(stats["nontrivial_keys"]),
                       "known": stats["known"], "violation": stats["violation"]}, f)

    @settings(database=None, deadline=None, suppress_health_check=list(HealthCheck), max_examples=10 ** 9)
    @given(sc.strategy)
    def test(case):
        ctx, discs = runner.run_oracle(mod, sc, case, "thorough")
        stats["executions"] += 1
        if ctx.nontrivial:
            stats["nontrivial_keys"].add(runner.case_key(case))
        unknown = []
        for d in discs:
            if runner.match_known(open_entries, selectors, sc.name, case, d) is not None:
                stats["known"] += 1
            else:
                unknown.append(d)
        if stats["executions"] % 200 == 0:
            flush()
        if unknown:
            path = os.path.join(a.out, "violation.json")
            with open(path, "w") as f:
                json.dump({"property": mod.PROPERTY_ID, "subcheck": sc.name, "case": case, "discrepancies": unknown,
                           "tier": "thorough", "found_by": "atheris"}, f, indent=1, default=str)
            stats["violation"] = path
            flush()
            raise AssertionError(unknown[0]["kind"])

    flush()
    atheris.Setup([sys.argv[0], "-runs=%d" % a.runs, "-seed=%d" % a.seed, "-max_len=4096", "-print_final_stats=0",
                   "-verbosity=0", "-artifact_prefix=%s/" % a.out, corpus], test.hypothesis.fuzz_one_input)
    atheris.Fuzz()
    return 0


if __name__ == "__main__":
    sys.exit(main())
