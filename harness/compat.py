"""Harness-side compatibility layer (DESIGN.md 0.2).

The repository under test is sktime 0.6.0 (2021).  The interpreter in this sandbox has
numpy 2.x, pandas 2.x, scikit-learn 1.7, scipy 1.18 and no numba.  This module restores the
third-party *names* the 2021 sources need, with their 2021 meaning, before ``sktime`` is
imported.  Nothing inside /repo is modified.

``install()`` is idempotent.  ``post_import()`` applies the single duck-typing patch on a
repo class (``ForecastingHorizon.__iter__``), after ``sktime`` was imported.
"""
import builtins
import functools
import importlib
import importlib.abc
import importlib.machinery
import math
import sys
import types
import warnings

_INSTALLED = False


# ----------------------------------------------------------------------------- numpy
def _patch_numpy():
    import numpy as np

    for name, obj in (
        ("float", builtins.float),
        ("int", builtins.int),
        ("bool", builtins.bool),
        ("object", builtins.object),
        ("complex", builtins.complex),
        ("str", builtins.str),
    ):
        if name not in np.__dict__:
            setattr(np, name, obj)
    if "math" not in np.__dict__:
        np.math = math
    if "NINF" not in np.__dict__:
        np.NINF = -np.inf
    if "Inf" not in np.__dict__:
        np.Inf = np.inf
    if "NaN" not in np.__dict__:
        np.NaN = np.nan
    if "float_" not in np.__dict__:
        np.float_ = np.float64
    if "product" not in np.__dict__:
        np.product = np.prod
    if "cumproduct" not in np.__dict__:
        np.cumproduct = np.cumprod
    if "in1d" not in np.__dict__:
        np.in1d = np.isin
    if "trapz" not in np.__dict__ and hasattr(np, "trapezoid"):
        np.trapz = np.trapezoid


# ----------------------------------------------------------------------------- pandas
def _patch_pandas():
    import numpy as np
    import pandas as pd

    if "Int64Index" not in pd.__dict__:

        class _Int64IndexMeta(type):
            """pd.Int64Index as it behaved in pandas 1.x, for the uses in the repo.

            isinstance(x, Int64Index): pandas 1.x RangeIndex was a subclass of
            Int64Index, so both plain int64 indexes and RangeIndex match.
            type(x) == Int64Index / type(x) in (Int64Index, ...): true when type(x) is
            pd.Index (the dtype cannot be seen here; see DESIGN 0.2 fidelity note).
            """

            def __instancecheck__(cls, inst):
                if isinstance(inst, pd.RangeIndex):
                    return True
                return (
                    type(inst) is pd.Index
                    and getattr(inst, "dtype", None) is not None
                    and inst.dtype.kind == "i"
                )

            def __subclasscheck__(cls, sub):
                return sub is cls or sub is pd.RangeIndex

            def __call__(cls, data=None, dtype=None, copy=False, name=None):
                return pd.Index(data, dtype="int64", copy=copy, name=name)

            def __eq__(cls, other):
                return other is cls or other is pd.Index

            def __ne__(cls, other):
                return not type(cls).__eq__(cls, other)

            def __hash__(cls):
                return hash(pd.Index)

        class Int64Index(metaclass=_Int64IndexMeta):
            pass

        Int64Index.__module__ = "pandas"
        pd.Int64Index = Int64Index
        try:
            import pandas.core.api as _api

            _api.Int64Index = Int64Index
        except Exception:  # pragma: no cover
            pass

    if not hasattr(pd.Index, "is_monotonic"):
        pd.Index.is_monotonic = property(lambda self: self.is_monotonic_increasing)
    if not hasattr(pd.Series, "is_monotonic"):
        pd.Series.is_monotonic = property(lambda self: self.is_monotonic_increasing)

    if not hasattr(pd.Series, "iteritems"):
        pd.Series.iteritems = pd.Series.items
    if not hasattr(pd.DataFrame, "iteritems"):
        pd.DataFrame.iteritems = pd.DataFrame.items

    if not hasattr(pd.Series, "append"):

        def _series_append(self, to_append, ignore_index=False, verify_integrity=False):
            if isinstance(to_append, (list, tuple)):
                objs = [self] + list(to_append)
            else:
                objs = [self, to_append]
            objs = [o for o in objs]
            with warnings.catch_warnings():
                warnings.simplefilter("ignore", FutureWarning)
                return pd.concat(
                    objs, ignore_index=ignore_index, verify_integrity=verify_integrity
                )

        pd.Series.append = _series_append

    if not hasattr(pd.DataFrame, "append"):

        def _frame_append(
            self, other, ignore_index=False, verify_integrity=False, sort=False
        ):
            if isinstance(other, dict):
                if not ignore_index:
                    raise TypeError("Can only append a dict if ignore_index=True")
                other = pd.Series(other)
            if isinstance(other, pd.Series):
                if other.name is None and not ignore_index:
                    raise TypeError(
                        "Can only append a Series if ignore_index=True "
                        "or if the Series has a name"
                    )
                row = pd.DataFrame(
                    [other.values], columns=other.index, index=[other.name]
                ).infer_objects()
                # pandas 1.x: object row keeps cell objects
                for c in row.columns:
                    pass
                other = row
                if ignore_index:
                    other.index = [0]
            elif isinstance(other, list):
                if len(other) and all(isinstance(o, pd.DataFrame) for o in other):
                    with warnings.catch_warnings():
                        warnings.simplefilter("ignore", FutureWarning)
                        return pd.concat(
                            [self] + other,
                            ignore_index=ignore_index,
                            verify_integrity=verify_integrity,
                            sort=sort,
                        )
                other = pd.DataFrame(other)
            with warnings.catch_warnings():
                warnings.simplefilter("ignore", FutureWarning)
                if len(self.columns) == 0 and len(self) == 0:
                    out = other.copy()
                    if ignore_index:
                        out = out.reset_index(drop=True)
                    return out
                return pd.concat(
                    [self, other],
                    ignore_index=ignore_index,
                    verify_integrity=verify_integrity,
                    sort=sort,
                )

        pd.DataFrame.append = _frame_append

    # pd.read_csv(squeeze=True)
    if not getattr(pd.read_csv, "_verif_squeeze", False):
        _orig_read_csv = pd.read_csv

        @functools.wraps(_orig_read_csv)
        def read_csv(*args, **kwargs):
            squeeze = kwargs.pop("squeeze", False)
            out = _orig_read_csv(*args, **kwargs)
            if squeeze and isinstance(out, pd.DataFrame) and out.shape[1] == 1:
                out = out.iloc[:, 0]
            return out

        read_csv._verif_squeeze = True
        pd.read_csv = read_csv

    # DataFrame.applymap kept in pandas 2.x (deprecated) - silence only
    warnings.filterwarnings("ignore", category=FutureWarning)
    try:
        warnings.filterwarnings("ignore", category=pd.errors.PerformanceWarning)
    except Exception:  # pragma: no cover
        pass


# ----------------------------------------------------------------------------- sklearn
def _patch_sklearn():
    import numpy as np
    import sklearn
    import sklearn.base

    if not hasattr(sklearn.base, "_pprint"):

        def _pprint(params, offset=0, printer=repr):
            parts = []
            for k, v in sorted(params.items()):
                if isinstance(v, float):
                    s = "%s=%s" % (k, str(v))
                else:
                    s = "%s=%s" % (k, printer(v))
                if len(s) > 500:
                    s = s[:300] + "..." + s[-100:]
                parts.append(s)
            return (",\n" + (1 + offset // 2) * " ").join(parts)

        sklearn.base._pprint = _pprint

    import sklearn.utils.metaestimators as me

    if not hasattr(me, "if_delegate_has_method"):
        from sklearn.utils.metaestimators import available_if

        def if_delegate_has_method(delegate):
            if isinstance(delegate, list):
                delegate = tuple(delegate)
            if not isinstance(delegate, tuple):
                delegate = (delegate,)

            def decorator(fn):
                def check(self):
                    for d in delegate:
                        try:
                            obj = getattr(self, d)
                        except AttributeError:
                            continue
                        # raises AttributeError if missing, as sklearn 0.24 did
                        getattr(obj, fn.__name__)
                        return True
                    # none of the delegates exists
                    getattr(self, delegate[-1])
                    return True

                return available_if(check)(fn)

            return decorator

        me.if_delegate_has_method = if_delegate_has_method

    import sklearn.model_selection._search as ms

    if not hasattr(ms, "_check_param_grid"):

        def _check_param_grid(param_grid):
            if hasattr(param_grid, "items"):
                param_grid = [param_grid]
            for p in param_grid:
                for name, v in p.items():
                    if isinstance(v, np.ndarray) and v.ndim > 1:
                        raise ValueError("Parameter array should be one-dimensional.")
                    if isinstance(v, str) or not isinstance(
                        v, (np.ndarray, list, tuple)
                    ):
                        if not hasattr(v, "__len__") or isinstance(v, str):
                            raise ValueError(
                                "Parameter grid for parameter ({0}) needs to"
                                " be a list or numpy array, but got ({1})."
                                " Single values need to be wrapped in a list"
                                " with one element.".format(name, type(v))
                            )
                    if len(v) == 0:
                        raise ValueError(
                            "Parameter values for parameter ({0}) need "
                            "to be a non-empty sequence.".format(name)
                        )

        ms._check_param_grid = _check_param_grid

    import sklearn.neighbors._base as nb

    if not hasattr(nb, "_check_weights"):

        def _check_weights(weights):
            if weights in (None, "uniform", "distance"):
                return weights
            elif callable(weights):
                return weights
            raise ValueError(
                "weights not recognized: should be 'uniform', "
                "'distance', or a callable function"
            )

        nb._check_weights = _check_weights

    # _check_reg_targets: 3 positional args -> sklearn 0.24 behaviour
    import sklearn.metrics._regression as reg

    if not getattr(reg._check_reg_targets, "_verif", False):
        _orig_crt = reg._check_reg_targets
        from sklearn.utils.validation import check_array, check_consistent_length

        def _crt_024(y_true, y_pred, multioutput, dtype="numeric"):
            check_consistent_length(y_true, y_pred)
            y_true = check_array(y_true, ensure_2d=False, dtype=dtype)
            y_pred = check_array(y_pred, ensure_2d=False, dtype=dtype)
            if y_true.ndim == 1:
                y_true = y_true.reshape((-1, 1))
            if y_pred.ndim == 1:
                y_pred = y_pred.reshape((-1, 1))
            if y_true.shape[1] != y_pred.shape[1]:
                raise ValueError(
                    "y_true and y_pred have different number of output "
                    "({0}!={1})".format(y_true.shape[1], y_pred.shape[1])
                )
            n_outputs = y_true.shape[1]
            allowed = ("raw_values", "uniform_average", "variance_weighted")
            if isinstance(multioutput, str):
                if multioutput not in allowed:
                    raise ValueError(
                        "Allowed 'multioutput' string values are {}. "
                        "You provided multioutput={!r}".format(allowed, multioutput)
                    )
            elif multioutput is not None:
                multioutput = check_array(multioutput, ensure_2d=False)
                if n_outputs == 1:
                    raise ValueError(
                        "Custom weights are useful only in multi-output cases."
                    )
                elif n_outputs != len(multioutput):
                    raise ValueError(
                        "There must be equally many custom weights "
                        "(%d) as outputs (%d)." % (len(multioutput), n_outputs)
                    )
            y_type = "continuous" if n_outputs == 1 else "continuous-multioutput"
            return y_type, y_true, y_pred, multioutput

        @functools.wraps(_orig_crt)
        def _check_reg_targets(*args, **kwargs):
            if len(args) == 3 and not kwargs:
                return _crt_024(*args)
            return _orig_crt(*args, **kwargs)

        _check_reg_targets._verif = True
        _check_reg_targets._orig = _orig_crt
        reg._check_reg_targets = _check_reg_targets

    # mean_squared_error(squared=...)
    import inspect

    import sklearn.metrics as skm

    if "squared" not in inspect.signature(skm.mean_squared_error).parameters:
        _orig_mse = skm.mean_squared_error

        def mean_squared_error(
            y_true,
            y_pred,
            *,
            sample_weight=None,
            multioutput="uniform_average",
            squared=True,
        ):
            if squared:
                return _orig_mse(
                    y_true, y_pred, sample_weight=sample_weight, multioutput=multioutput
                )
            raw = _orig_mse(
                y_true, y_pred, sample_weight=sample_weight, multioutput="raw_values"
            )
            raw = np.sqrt(raw)
            if isinstance(multioutput, str):
                if multioutput == "raw_values":
                    return raw
                weights = None
            else:
                weights = multioutput
            return float(np.average(raw, weights=weights))

        mean_squared_error.__wrapped__ = _orig_mse
        skm.mean_squared_error = mean_squared_error
        reg.mean_squared_error = mean_squared_error

    # forest base_estimator kwarg / attribute
    import sklearn.ensemble._base as eb
    import sklearn.ensemble._forest as ef

    def _wrap_init(cls):
        orig = cls.__init__
        if getattr(orig, "_verif", False):
            return
        sig = inspect.signature(orig)
        if "estimator" not in sig.parameters:
            return

        @functools.wraps(orig)
        def __init__(self, *args, **kwargs):
            if "base_estimator" in kwargs:
                be = kwargs.pop("base_estimator")
                if "estimator" not in kwargs and not args:
                    kwargs["estimator"] = be
                elif "estimator" not in kwargs and args:
                    # positional estimator given as first arg already
                    pass
            return orig(self, *args, **kwargs)

        __init__._verif = True
        cls.__init__ = __init__

    for cls in (
        eb.BaseEnsemble,
        ef.BaseForest,
        ef.ForestClassifier,
        ef.ForestRegressor,
    ):
        _wrap_init(cls)
    if not hasattr(eb.BaseEnsemble, "base_estimator"):

        def _get_be(self):
            return self.__dict__.get("estimator")

        def _set_be(self, v):
            self.__dict__["estimator"] = v

        eb.BaseEnsemble.base_estimator = property(_get_be, _set_be)
    if not hasattr(eb.BaseEnsemble, "base_estimator_"):

        def _get_be_(self):
            try:
                return self.__dict__["estimator_"]
            except KeyError:
                raise AttributeError("base_estimator_")

        def _set_be_(self, v):
            self.__dict__["estimator_"] = v

        eb.BaseEnsemble.base_estimator_ = property(_get_be_, _set_be_)

    # sklearn.utils.multiclass.class_distribution etc. still exist.
    # sklearn.utils.validation._deprecate_positional_args may be needed
    import sklearn.utils.validation as val

    if not hasattr(val, "_deprecate_positional_args"):

        def _deprecate_positional_args(func=None, *, version=None):
            def deco(f):
                return f

            if func is not None:
                return deco(func)
            return deco

        val._deprecate_positional_args = _deprecate_positional_args

    import sklearn.utils as sku

    if not hasattr(sku, "_deprecate_positional_args"):
        sku._deprecate_positional_args = val._deprecate_positional_args


# ----------------------------------------------------------------------------- scipy
def _patch_scipy():
    import scipy.stats

    mod = importlib.import_module("scipy.stats._morestats")
    cur = sys.modules.get("scipy.stats.morestats")
    if cur is not mod:
        # scipy >= 1.8 keeps a deprecation stub without the private helpers
        sys.modules["scipy.stats.morestats"] = mod
        scipy.stats.morestats = mod


# ----------------------------------------------------------------------------- numba
def _install_fake_numba():
    try:
        import numba  # noqa: F401

        return
    except ImportError:
        pass

    numba = types.ModuleType("numba")
    numba.__verif_fake__ = True

    def _passthrough(*args, **kwargs):
        if len(args) == 1 and callable(args[0]) and not kwargs:
            return args[0]

        def deco(f):
            return f

        return deco

    numba.njit = _passthrough
    numba.jit = _passthrough
    numba.vectorize = _passthrough
    numba.guvectorize = _passthrough
    numba.generated_jit = _passthrough
    numba.stencil = _passthrough
    numba.prange = range
    numba.get_num_threads = lambda: 1
    numba.set_num_threads = lambda n: None

    class _Type:
        def __init__(self, name):
            self.name = name

        def __getitem__(self, item):
            return self

        def __call__(self, *a, **k):
            return self

        def __repr__(self):
            return "numba." + self.name

    for t in (
        "int8 int16 int32 int64 uint8 uint16 uint32 uint64 float32 float64 "
        "boolean void intp uintp optional"
    ).split():
        setattr(numba, t, _Type(t))

    typed = types.ModuleType("numba.typed")

    class _List(list):
        @classmethod
        def empty_list(cls, *a, **k):
            return cls()

    class _Dict(dict):
        @classmethod
        def empty(cls, *a, **k):
            return cls()

    typed.List = _List
    typed.Dict = _Dict
    numba.typed = typed
    ntypes = types.ModuleType("numba.types")
    for t in "int32 int64 float32 float64 boolean unicode_type UniTuple Tuple".split():
        setattr(ntypes, t, _Type(t))
    numba.types = ntypes
    core = types.ModuleType("numba.core")
    core.types = ntypes
    numba.core = core
    sys.modules["numba"] = numba
    sys.modules["numba.typed"] = typed
    sys.modules["numba.types"] = ntypes
    sys.modules["numba.core"] = core
    sys.modules["numba.core.types"] = ntypes


def install():
    global _INSTALLED
    if _INSTALLED:
        return
    _patch_numpy()
    _patch_pandas()
    _patch_sklearn()
    _patch_scipy()
    _install_fake_numba()
    _INSTALLED = True


def post_import():
    """Patches on repo classes, applied after ``import sktime``."""
    from sktime.forecasting.base._fh import ForecastingHorizon

    if "__iter__" not in ForecastingHorizon.__dict__:

        def __iter__(self):
            return iter(self.to_pandas())

        ForecastingHorizon.__iter__ = __iter__
