"""Generic runner: seeds, sharding, stats, evidence, replay, known findings, exit codes.

See DESIGN.md section 1.  A property module exposes

    PROPERTY_ID, LEVEL, RULE, ASSUMPTIONS (list), DESIGN_REF
    subchecks() -> list[SubCheck]
    SELECTORS = {name: predicate(case, discrepancy) -> bool}     (for known findings)

A SubCheck owns a generator of *JSON-serialisable* cases (a Hypothesis strategy, or a
finite enumeration) and an oracle ``oracle(case, ctx) -> list[discrepancy]`` that builds
the real objects, calls the code under test through ``sut()`` and compares with its
reference model.  The oracle never asserts.
"""
import collections
import fnmatch
import hashlib
import json
import math
import multiprocessing
import os
import sys
import time
import traceback

from harness import load

EXIT_OK, EXIT_VIOLATION, EXIT_HARNESS = 0, 1, 2
# sensitivity / seeded-change runs (VERIF_SENS=1) must not touch committed evidence/replays
OUT_ROOT = (
    os.path.join(load.VERIF_ROOT, ".work", "sens")
    if os.environ.get("VERIF_SENS") == "1"
    else load.VERIF_ROOT
)


# --------------------------------------------------------------------------- SUT calls
class Raised:
    """Record of an exception raised by the code under test."""

    def __init__(self, exc):
        self.exc = exc
        self.type = type(exc).__name__
        self.msg = str(exc)[:300]
        self.where = innermost_repo_frame(exc)

    def is_a(self, *types):
        return isinstance(self.exc, types)

    def __repr__(self):
        return "Raised(%s: %s @ %s)" % (self.type, self.msg[:120], self.where)


def innermost_repo_frame(exc):
    tb = traceback.extract_tb(exc.__traceback__)
    where = None
    prefix = load.REPO + os.sep
    for fr in tb:
        fn = os.path.abspath(fr.filename)
        if fn.startswith(prefix):
            where = "%s:%s" % (os.path.relpath(fn, load.REPO), fr.name)
    return where


def has_harness_frame_only(exc):
    return innermost_repo_frame(exc) is None


def sut(fn, *args, **kwargs):
    """Call the code under test; return its value or a Raised record."""
    try:
        return fn(*args, **kwargs)
    except Exception as e:  # noqa: BLE001 - deliberate: the oracle decides
        return Raised(e)


def D(kind, detail=""):
    return {"kind": str(kind), "detail": str(detail)[:600]}


def unexpected(r, what=""):
    """Discrepancy for an exception that the contract does not allow."""
    return D(
        "unexpected:%s@%s" % (r.type, r.where or "outside-repo"),
        "%s raised %s: %s" % (what, r.type, r.msg),
    )


# --------------------------------------------------------------------------- contexts
class Ctx:
    """Per-case recorder handed to the oracle."""

    def __init__(self, tier="quick", replay=False):
        self.labels = []
        self.nontrivial = False
        self.rejected = False
        self.tier = tier
        self.replay = replay
        self.extra = collections.Counter()

    def label(self, s):
        self.labels.append(str(s))

    def mark_nontrivial(self, flag=True):
        if flag:
            self.nontrivial = True

    def mark_rejected(self):
        self.rejected = True

    def count(self, key, n=1):
        self.extra[key] += n


class SubCheck:
    def __init__(
        self,
        name,
        oracle,
        strategy=None,
        enumerate_cases=None,
        quick=200,
        thorough=2000,
        shards_quick=1,
        shards_thorough=8,
        budget_quick=75.0,
        budget_thorough=1500.0,
        exhaustive=False,
        weight=1.0,
    ):
        self.name = name
        self.oracle = oracle
        self.strategy = strategy
        self.enumerate_cases = enumerate_cases  # callable(tier) -> iterable of cases
        self.quick = quick
        self.thorough = thorough
        self.shards_quick = shards_quick
        self.shards_thorough = shards_thorough
        self.budget_quick = budget_quick
        self.budget_thorough = budget_thorough
        self.exhaustive = exhaustive

    def n_cases(self, tier):
        return self.quick if tier == "quick" else self.thorough

    def n_shards(self, tier):
        return self.shards_quick if tier == "quick" else self.shards_thorough

    def budget(self, tier):
        return self.budget_quick if tier == "quick" else self.budget_thorough


# --------------------------------------------------------------------------- known findings
def load_known_findings(prop_id):
    path = os.path.join(load.VERIF_ROOT, "known_findings.json")
    if not os.path.exists(path):
        return [], []
    with open(path) as f:
        data = json.load(f)
    open_, fixed = [], []
    for e in data.get("findings", []):
        if e.get("property") != prop_id:
            continue
        (open_ if e.get("status") == "open" else fixed).append(e)
    return open_, fixed


def match_known(entries, selectors, subcheck, case, disc):
    for e in entries:
        sc = e.get("subcheck", "*")
        if not fnmatch.fnmatchcase(subcheck, sc):
            continue
        if not fnmatch.fnmatchcase(disc["kind"], e["kind"]):
            continue
        sel = e.get("selector")
        if sel:
            fn = selectors.get(sel)
            if fn is None:
                raise load.HarnessError("unknown selector %r in known_findings" % sel)
            try:
                if not fn(case, disc):
                    continue
            except Exception:
                continue
        return e
    return None


# --------------------------------------------------------------------------- core loop
def derive_seed(base, prop, sub, shard):
    h = hashlib.sha256(("%s:%s:%s:%s" % (base, prop, sub, shard)).encode()).hexdigest()
    return int(h[:8], 16)


def case_key(case):
    return hashlib.sha1(
        json.dumps(case, sort_keys=True, default=str).encode()
    ).hexdigest()


class _Stats:
    def __init__(self):
        self.evaluations = 0
        self.rejected = 0
        self.nontrivial_keys = set()
        self.labels = collections.Counter()
        self.extra = collections.Counter()
        self.samples = []
        self.known_hits = collections.Counter()
        self.skipped_budget = 0
        self.violation = None  # dict(case, discs)
        self.harness_error = None
        self.wall = 0.0

    def to_dict(self):
        return {
            "evaluations": self.evaluations,
            "rejected": self.rejected,
            "nontrivial_keys": sorted(self.nontrivial_keys),
            "labels": dict(self.labels),
            "extra": dict(self.extra),
            "samples": self.samples,
            "known_hits": dict(self.known_hits),
            "skipped_budget": self.skipped_budget,
            "violation": self.violation,
            "harness_error": self.harness_error,
            "wall": self.wall,
        }


def run_oracle(mod, sc, case, tier, replay=False):
    """Run an oracle once.  Returns (ctx, discrepancies).  Raises HarnessError."""
    ctx = Ctx(tier=tier, replay=replay)
    try:
        discs = sc.oracle(case, ctx) or []
    except load.HarnessError:
        raise
    except Exception as e:  # noqa: BLE001
        where = innermost_repo_frame(e)
        if where is None:
            raise load.HarnessError(
                "oracle/generator error in %s: %s\n%s"
                % (sc.name, repr(e), traceback.format_exc())
            )
        # an exception from repo code called outside sut(): treat as unexpected
        discs = [unexpected(Raised(e), "uncaught in oracle")]
    return ctx, discs


class _ShrinkTimeout(BaseException):
    """Not an Exception on purpose: Hypothesis lets BaseExceptions escape its engine."""


def _run_shard(args):
    """Worker: run one (sub-check, shard).  Returns a stats dict."""
    mod_name, sc_name, shard, n_shards, tier, base_seed = args
    import importlib

    mod = importlib.import_module(mod_name)
    sc = {s.name: s for s in mod.subchecks()}[sc_name]
    selectors = getattr(mod, "SELECTORS", {})
    open_entries, _ = load_known_findings(mod.PROPERTY_ID)
    st = _Stats()
    t0 = time.time()
    budget = sc.budget(tier)
    max_samples = 3

    state = {"failed": False, "target_kind": None, "last_fail": None, "shrink_t0": None}

    def one(case):
        """Returns True when this case is a (new) violation."""
        if st.harness_error is not None:
            return False
        if not state["failed"]:
            if time.time() - t0 > budget:
                st.skipped_budget += 1
                return False
        else:
            # shrinking: bound its duration; afterwards only the best case reproduces
            limit = float(
                os.environ.get("VERIF_SHRINK_S") or (45.0 if tier == "quick" else 180.0)
            )
            if time.time() - state["shrink_t0"] > limit:
                # stop the shrinker for good (generating further candidates can cost far
                # more than judging them); the best failing case so far is already recorded
                raise _ShrinkTimeout()
        try:
            ctx, discs = run_oracle(mod, sc, case, tier)
        except load.HarnessError as e:
            st.harness_error = str(e)
            return False
        unknown = []
        for d in discs:
            e = match_known(open_entries, selectors, sc.name, case, d)
            if e is not None:
                if not state["failed"]:
                    st.known_hits[e["id"]] += 1
            else:
                unknown.append(d)
        if not state["failed"]:
            st.evaluations += 1
            if ctx.rejected:
                st.rejected += 1
            for lab in ctx.labels:
                st.labels[lab] += 1
            st.extra.update(ctx.extra)
            if ctx.nontrivial:
                k = case_key(case)
                if k not in st.nontrivial_keys:
                    st.nontrivial_keys.add(k)
                    if len(st.samples) < max_samples:
                        st.samples.append({"subcheck": sc.name, "case": case})
        if unknown:
            if not state["failed"]:
                state["failed"] = True
                state["target_kind"] = unknown[0]["kind"]
                state["shrink_t0"] = time.time()
            hit = [d for d in unknown if d["kind"] == state["target_kind"]]
            if hit:
                state["last_fail"] = {"case": case, "discs": hit}
                return True
        return False

    seed = derive_seed(base_seed, mod.PROPERTY_ID, sc.name, shard)
    try:
        if sc.enumerate_cases is not None:
            for i, case in enumerate(sc.enumerate_cases(tier)):
                if i % n_shards != shard:
                    continue
                if one(case):
                    break
                if st.harness_error:
                    break
        else:
            import hypothesis
            from hypothesis import HealthCheck, Phase, given, settings

            n_total = sc.n_cases(tier)
            n = n_total // n_shards + (1 if shard < n_total % n_shards else 0)
            if n > 0:

                class _Found(Exception):
                    pass

                @hypothesis.seed(seed)
                @settings(
                    max_examples=n,
                    database=None,
                    deadline=None,
                    derandomize=False,
                    report_multiple_bugs=False,
                    phases=(Phase.generate, Phase.shrink),
                    suppress_health_check=[
                        HealthCheck.too_slow,
                        HealthCheck.data_too_large,
                        HealthCheck.large_base_example,
                    ],
                    print_blob=False,
                    verbosity=hypothesis.Verbosity.quiet,
                )
                @given(sc.strategy)
                def test(case):
                    if one(case):
                        raise _Found()

                try:
                    test()
                except (_Found, _ShrinkTimeout):
                    pass
                except hypothesis.errors.Flaky as e:
                    # non-deterministic SUT behaviour: keep the recorded failing case
                    if state["last_fail"] is None:
                        st.harness_error = "Flaky without recorded failure: %r" % (e,)
                except hypothesis.errors.HypothesisException as e:
                    st.harness_error = "hypothesis error in %s: %r" % (sc.name, e)
    except load.HarnessError as e:
        st.harness_error = str(e)
    except Exception as e:  # noqa: BLE001
        st.harness_error = "runner error in %s: %r\n%s" % (
            sc.name,
            e,
            traceback.format_exc(),
        )
    if state["last_fail"] is not None:
        st.violation = {
            "subcheck": sc.name,
            "case": state["last_fail"]["case"],
            "discrepancies": state["last_fail"]["discs"],
            "seed": seed,
            "shard": shard,
        }
    st.wall = time.time() - t0
    out = st.to_dict()
    out["subcheck"] = sc.name
    out["shard"] = shard
    return out


def run_property(mod, tier, base_seed, only=None, jobs=None):
    """Run all sub-checks of a property module; write evidence; return exit code."""
    t0 = time.time()
    prop = mod.PROPERTY_ID
    scs = mod.subchecks()
    if only:
        scs = [s for s in scs if any(fnmatch.fnmatchcase(s.name, o) for o in only)]
    tasks = []
    for sc in scs:
        ns = sc.n_shards(tier)
        for sh in range(ns):
            tasks.append((mod.__name__, sc.name, sh, ns, tier, base_seed))
    jobs = jobs or int(os.environ.get("VERIF_JOBS", "0")) or min(
        16, max(1, len(tasks))
    )
    jobs = min(jobs, len(tasks)) or 1
    results = []
    if jobs == 1:
        for t in tasks:
            results.append(_run_shard(t))
    else:
        ctx = multiprocessing.get_context("fork")
        with ctx.Pool(jobs, maxtasksperchild=1) as pool:
            for r in pool.imap_unordered(_run_shard, tasks, chunksize=1):
                results.append(r)
    results.sort(key=lambda r: (r["subcheck"], r["shard"]))

    # ---- merge
    open_entries, fixed_entries = load_known_findings(prop)
    per_sub = collections.OrderedDict()
    harness_errors = []
    violations = []
    for sc in scs:
        per_sub[sc.name] = {
            "evaluations": 0,
            "rejected_as_documented": 0,
            "distinct_nontrivial": 0,
            "classes": collections.Counter(),
            "counters": collections.Counter(),
            "skipped_for_time_budget": 0,
            "known_finding_hits": collections.Counter(),
            "exhaustive": bool(sc.exhaustive and sc.enumerate_cases is not None),
            "_keys": set(),
            "wall_s": 0.0,
        }
    samples = []
    for r in results:
        ps = per_sub[r["subcheck"]]
        ps["evaluations"] += r["evaluations"]
        ps["rejected_as_documented"] += r["rejected"]
        ps["_keys"].update(r["nontrivial_keys"])
        ps["classes"].update(r["labels"])
        ps["counters"].update(r["extra"])
        ps["skipped_for_time_budget"] += r["skipped_budget"]
        ps["known_finding_hits"].update(r["known_hits"])
        ps["wall_s"] = max(ps["wall_s"], r["wall"])
        if r["shard"] == 0:
            samples.extend(r["samples"][:2])
        if r["harness_error"]:
            harness_errors.append(r["harness_error"])
        if r["violation"]:
            violations.append(r["violation"])
    total_eval = 0
    total_nt = 0
    known_total = collections.Counter()
    all_exhaustive = True
    skipped = 0
    for name, ps in per_sub.items():
        ps["distinct_nontrivial"] = len(ps.pop("_keys"))
        ps["classes"] = dict(sorted(ps["classes"].items()))
        ps["counters"] = dict(sorted(ps["counters"].items()))
        known_total.update(ps["known_finding_hits"])
        ps["known_finding_hits"] = dict(ps["known_finding_hits"])
        ps["wall_s"] = round(ps["wall_s"], 2)
        total_eval += ps["evaluations"]
        total_nt += ps["distinct_nontrivial"]
        skipped += ps["skipped_for_time_budget"]
        if not ps["exhaustive"] or ps["skipped_for_time_budget"]:
            all_exhaustive = False

    # ---- regression tier: saved shrunk inputs of earlier findings / seeded changes
    regress_violations = []
    n_regress = 0
    if only is None:
        import glob

        sel = getattr(mod, "SELECTORS", {})
        scmap = {s.name: s for s in scs}
        for path in sorted(
            glob.glob(os.path.join(load.VERIF_ROOT, "regress", prop, "*.json"))
        ):
            with open(path) as f:
                rec = json.load(f)
            sc = scmap.get(rec.get("subcheck"))
            if sc is None:
                continue
            try:
                _, discs = run_oracle(mod, sc, rec["case"], tier, replay=True)
            except load.HarnessError as e:
                harness_errors.append("regress %s: %s" % (path, e))
                continue
            n_regress += 1
            unknown = [
                d
                for d in discs
                if match_known(open_entries, sel, sc.name, rec["case"], d) is None
            ]
            if unknown:
                regress_violations.append(
                    (unknown[0], os.path.relpath(path, load.VERIF_ROOT))
                )

    # ---- thorough tier: coverage-guided fuzzing (atheris) of selected sub-checks
    fuzz_report = []
    if tier == "thorough" and only is None and getattr(mod, "FUZZ", None):
        import shutil
        import subprocess

        procs = []
        for (sub, runs) in mod.FUZZ:
            out = load.work_dir("fuzz", "%s_%s_%d" % (prop, sub, os.getpid()))
            cmd = [sys.executable, "-m", "harness.fuzz", prop, sub, "--runs", str(runs),
                   "--seed", str(derive_seed(base_seed, prop, sub, "fuzz") % 2 ** 31), "--out", out]
            procs.append((sub, out, subprocess.Popen(cmd, cwd=load.VERIF_ROOT, stdout=subprocess.DEVNULL,
                                                     stderr=subprocess.DEVNULL)))
        for sub, out, p in procs:
            try:
                rc = p.wait(timeout=float(os.environ.get("VERIF_FUZZ_TIMEOUT", "1500")))
            except subprocess.TimeoutExpired:
                p.kill()
                rc = None
            stats_file = os.path.join(out, "stats.json")
            stt = json.load(open(stats_file)) if os.path.exists(stats_file) else {}
            entry = {"subcheck": sub, "engine": "atheris/libFuzzer + hypothesis.fuzz_one_input",
                     "executions": stt.get("executions", 0), "distinct_nontrivial": stt.get("distinct_nontrivial", 0),
                     "status": "not available" if rc == 3 else ("timeout (inconclusive)" if rc is None else "done")}
            fuzz_report.append(entry)
            vf = os.path.join(out, "violation.json")
            if os.path.exists(vf):
                rec = json.load(open(vf))
                violations.append({"subcheck": sub, "case": rec["case"], "discrepancies": rec["discrepancies"],
                                   "seed": int(base_seed), "shard": "fuzz"})
            shutil.rmtree(out, ignore_errors=True)

    # ---- replays for violations
    replay_paths = []
    for v in violations:
        d = os.path.join(OUT_ROOT, "replays", prop)
        os.makedirs(d, exist_ok=True)
        kind = v["discrepancies"][0]["kind"]
        tag = hashlib.sha1(
            (v["subcheck"] + kind + case_key(v["case"])).encode()
        ).hexdigest()[:10]
        path = os.path.join(d, "%s-%s.json" % (v["subcheck"], tag))
        with open(path, "w") as f:
            json.dump(
                {
                    "property": prop,
                    "subcheck": v["subcheck"],
                    "case": v["case"],
                    "discrepancies": v["discrepancies"],
                    "seed": v["seed"],
                    "tier": tier,
                },
                f,
                indent=1,
                sort_keys=True,
                default=str,
            )
        replay_paths.append((v, os.path.relpath(path, load.VERIF_ROOT)))

    wall = time.time() - t0
    evidence = {
        "property_id": prop,
        "tier": tier,
        "seed": int(base_seed),
        "level": getattr(mod, "LEVEL", "exploration"),
        "coverage": {
            "evaluations": total_eval,
            "distinct_nontrivial": total_nt,
            "rule": mod.RULE,
            "samples": samples[:12] if samples else [],
            "exhaustive": bool(all_exhaustive and len(per_sub) > 0),
            "subchecks": per_sub,
            "skipped_for_time_budget": skipped,
            "known_findings_open": [
                {
                    "id": e["id"],
                    "what": e.get("what", ""),
                    "reproduced_in_cases": int(known_total.get(e["id"], 0)),
                }
                for e in open_entries
            ],
            "fixed_findings": [e["id"] for e in fixed_entries],
            "excluded_by_construction": getattr(mod, "EXCLUDED", []),
            "regression_inputs_replayed": n_regress,
            "fuzzing": fuzz_report,
        },
        "assumptions": list(getattr(mod, "ASSUMPTIONS", [])) + COMMON_ASSUMPTIONS,
        "wall_s": round(wall, 2),
        "violations": len(violations) + len(regress_violations),
    }
    if only is None and not harness_errors:
        os.makedirs(os.path.join(OUT_ROOT, "evidence"), exist_ok=True)
        with open(os.path.join(OUT_ROOT, "evidence", "%s.json" % prop), "w") as f:
            json.dump(evidence, f, indent=1, default=str)

    # ---- report
    print(
        "%s tier=%s seed=%s evaluations=%d distinct_nontrivial=%d wall=%.1fs"
        % (prop, tier, base_seed, total_eval, total_nt, wall)
    )
    for name, ps in per_sub.items():
        print(
            "  %-34s n=%-6d nontrivial=%-6d rejected=%-5d skipped=%-4d known=%s %.1fs"
            % (
                name,
                ps["evaluations"],
                ps["distinct_nontrivial"],
                ps["rejected_as_documented"],
                ps["skipped_for_time_budget"],
                sum(ps["known_finding_hits"].values()),
                ps["wall_s"],
            )
        )
    for e in open_entries:
        print(
            "KNOWN-FINDING: property=%s %s [%s] (reproduced in %d cases this run)"
            % (prop, e.get("what", ""), e["id"], known_total.get(e["id"], 0))
        )
    if harness_errors:
        for h in harness_errors[:5]:
            sys.stderr.write("HARNESS-ERROR: %s\n" % h)
        # an oracle that could not cope with what a (changed) tree returned in one shard does not
        # take away a concrete, replayable violation found elsewhere in the same run
        if not (violations or regress_violations):
            return EXIT_HARNESS
    if regress_violations:
        for d0, p in regress_violations:
            print("  violation on saved input %s: %s -- %s" % (p, d0["kind"], d0["detail"]))
            print("VIOLATION property=%s replay=%s" % (prop, p))
    if violations or regress_violations:
        for v, p in replay_paths:
            d0 = v["discrepancies"][0]
            print(
                "  violation in %s: %s -- %s" % (v["subcheck"], d0["kind"], d0["detail"])
            )
            print("VIOLATION property=%s replay=%s" % (prop, p))
        return EXIT_VIOLATION
    return EXIT_OK


COMMON_ASSUMPTIONS = [
    "harness/compat.py restores removed numpy/pandas/sklearn/scipy names with their 2021 "
    "meaning and a pass-through numba (DESIGN 0.2); it is part of the trusted base",
    "reference models in harness/ref and in the property module are correct readings of "
    "the property statement and the docstrings",
    "absence of a discrepancy is only established for the generated cases",
]


def replay(mod, path, tier="quick"):
    with open(path) as f:
        rec = json.load(f)
    sc = {s.name: s for s in mod.subchecks()}.get(rec["subcheck"])
    if sc is None:
        sys.stderr.write("HARNESS-ERROR: unknown subcheck %s\n" % rec["subcheck"])
        return EXIT_HARNESS
    open_entries, _ = load_known_findings(mod.PROPERTY_ID)
    selectors = getattr(mod, "SELECTORS", {})
    try:
        ctx, discs = run_oracle(mod, sc, rec["case"], tier, replay=True)
    except load.HarnessError as e:
        sys.stderr.write("HARNESS-ERROR: %s\n" % e)
        return EXIT_HARNESS
    unknown = []
    for d in discs:
        e = match_known(open_entries, selectors, sc.name, rec["case"], d)
        print(
            "  %s %s -- %s"
            % ("known  " if e else "DISCREP", d["kind"], d["detail"])
        )
        if e is None:
            unknown.append(d)
    if unknown:
        print(
            "VIOLATION property=%s replay=%s"
            % (mod.PROPERTY_ID, os.path.relpath(os.path.abspath(path), load.VERIF_ROOT))
        )
        return EXIT_VIOLATION
    print("replay: no discrepancy")
    return EXIT_OK
