"""Inert stub modules for absent optional dependencies (DESIGN 0.3; used by C04 only).

With these installed the defining modules of every estimator class import, so that the
constructor / parameter / not-fitted contract can be checked on the real classes.  No stub
implements any behaviour: calling into one raises ``StubCalled``.
"""
import importlib.abc
import importlib.machinery
import sys
import types

CYTHON_ROOTS = (
    "sktime.distances.elastic_cython",
    "sktime.classification.shapelet_based.mrseql.mrseql",
)
STUB_ROOTS = (
    "pmdarima",
    "fbprophet",
    "tbats",
    "catch22",
    "tsfresh",
    "stumpy",
    "hcrystalball",
    "sktime.distances.elastic_cython",
    "sktime.classification.shapelet_based.mrseql.mrseql",
)


class StubCalled(RuntimeError):
    pass


class _StubObj:
    def __init__(self, name):
        self.__dict__["_name"] = name

    def __call__(self, *a, **k):
        raise StubCalled("stub %s called" % self._name)

    def __getattr__(self, item):
        if item.startswith("__"):
            raise AttributeError(item)
        return _StubObj(self._name + "." + item)

    def __mro_entries__(self, bases):
        return (object,)


class _StubModule(types.ModuleType):
    __verif_stub__ = True

    def __getattr__(self, item):
        if item.startswith("__"):
            raise AttributeError(item)
        if item[:1].isupper():
            # class-like: usable as a base class and as isinstance target
            cls = type(item, (object,), {"__module__": self.__name__})
            setattr(self, item, cls)
            return cls
        obj = _StubObj(self.__name__ + "." + item)
        return obj


class _Finder(importlib.abc.MetaPathFinder, importlib.abc.Loader):
    def __init__(self):
        self.roots = list(CYTHON_ROOTS)

    def find_spec(self, fullname, path=None, target=None):
        for root in self.roots:
            if fullname == root or fullname.startswith(root + "."):
                return importlib.machinery.ModuleSpec(fullname, self, is_package=True)
        return None

    def create_module(self, spec):
        m = _StubModule(spec.name)
        m.__path__ = []
        m.__version__ = "0.0.0"
        return m

    def exec_module(self, module):
        pass


_finder = None


def install(soft=True):
    """Unbuilt Cython extension modules are always stubbed; absent soft dependencies
    only when ``soft`` (C04)."""
    global _finder
    if _finder is None:
        _finder = _Finder()
        sys.meta_path.append(_finder)
    if soft:
        for r in STUB_ROOTS:
            if r not in _finder.roots:
                _finder.roots.append(r)
