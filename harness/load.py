"""Environment hygiene + import of the repository under test (DESIGN 0.1).

``boot()`` must be called before anything from ``sktime`` is imported.
"""
import os
import sys

VERIF_ROOT = os.path.dirname(os.path.dirname(os.path.abspath(__file__)))
REPO = os.path.abspath(os.environ.get("VERIF_REPO", "/repo"))
EXPECTED_VERSION = "0.6.0"

_REQUIRED_ENV = {
    "PYTHONHASHSEED": "0",
    "PYTHONDONTWRITEBYTECODE": "1",
    "OMP_NUM_THREADS": "1",
    "MKL_NUM_THREADS": "1",
    "OPENBLAS_NUM_THREADS": "1",
    "NUMEXPR_NUM_THREADS": "1",
}


class HarnessError(Exception):
    """An error of the verification machinery itself (exit code 2)."""


def ensure_env():
    """Re-exec once with a deterministic environment if needed."""
    missing = {k: v for k, v in _REQUIRED_ENV.items() if os.environ.get(k) != v}
    if missing and os.environ.get("VERIF_REEXEC") != "1":
        env = dict(os.environ)
        env.update(_REQUIRED_ENV)
        env["VERIF_REEXEC"] = "1"
        os.execve(sys.executable, [sys.executable] + sys.argv, env)


def work_dir(*parts):
    d = os.path.join(VERIF_ROOT, ".work", *parts)
    os.makedirs(d, exist_ok=True)
    return d


_BOOTED = False


def boot(stubs=False):
    """Install the compatibility layer, put the repo first on sys.path, import sktime."""
    global _BOOTED
    if _BOOTED:
        return sys.modules["sktime"]
    sys.dont_write_bytecode = True
    if VERIF_ROOT not in sys.path:
        sys.path.insert(0, VERIF_ROOT)
    deps = os.path.join(VERIF_ROOT, ".deps")
    if os.path.isdir(deps) and deps not in sys.path:
        sys.path.append(deps)
    # repo first
    while REPO in sys.path:
        sys.path.remove(REPO)
    sys.path.insert(0, REPO)
    # '' / cwd entries could shadow: harmless (cwd=/verif has no sktime)
    import warnings

    warnings.filterwarnings("ignore")
    from harness import compat

    compat.install()
    from harness import stubs as _stubs

    _stubs.install(soft=stubs)
    try:
        import sktime
    except Exception as e:  # the package root itself is broken
        raise
    f = os.path.abspath(sktime.__file__)
    if not f.startswith(REPO + os.sep):
        raise HarnessError("sktime imported from %s, not from %s" % (f, REPO))
    if sktime.__version__ != EXPECTED_VERSION:
        raise HarnessError("unexpected sktime version %s" % sktime.__version__)
    compat.post_import()
    warnings.filterwarnings("ignore")
    # statsmodels forces some warnings to "always"; none of them is an oracle here
    warnings.showwarning = lambda *a, **k: None
    _BOOTED = True
    return sktime
