"""Forecaster / transformer pools: JSON specs -> sktime objects, and strategies over specs.

A spec is a plain dict so that generated cases stay JSON-serialisable (replay files).
"""
import numpy as np
from hypothesis import strategies as st

from harness import doubles


# ----------------------------------------------------------------------------- builders
def build_transformer(spec):
    k = spec["kind"]
    if k == "deseason":
        from sktime.transformations.series.detrend import Deseasonalizer

        return Deseasonalizer(sp=spec["sp"], model=spec["model"])
    if k == "cond_deseason":
        from sktime.transformations.series.detrend import ConditionalDeseasonalizer

        return ConditionalDeseasonalizer(sp=spec["sp"], model=spec["model"])
    if k == "detrend":
        from sktime.forecasting.trend import PolynomialTrendForecaster
        from sktime.transformations.series.detrend import Detrender

        if spec["degree"] == 1 and spec.get("default"):
            # the documented default (a linear trend) left to the transformer itself
            return Detrender()
        return Detrender(PolynomialTrendForecaster(degree=spec["degree"]))
    if k == "boxcox":
        from sktime.transformations.series.boxcox import BoxCoxTransformer

        return BoxCoxTransformer(method=spec.get("method", "mle"), bounds=tuple(spec["bounds"]) if spec.get("bounds") else None)
    if k == "log":
        from sktime.transformations.series.boxcox import LogTransformer

        return LogTransformer()
    if k == "scaler":
        from sklearn.preprocessing import MinMaxScaler, StandardScaler

        from sktime.transformations.series.adapt import TabularToSeriesAdaptor

        return TabularToSeriesAdaptor(StandardScaler() if spec.get("which", "standard") == "standard" else MinMaxScaler())
    if k == "passthrough":
        from sktime.transformations.series.compose import OptionalPassthrough

        return OptionalPassthrough(build_transformer(spec["inner"]), passthrough=spec["passthrough"])
    if k == "func":
        from sklearn.preprocessing import FunctionTransformer

        from sktime.transformations.series.adapt import TabularToSeriesAdaptor

        fwd, inv = {"sqrt": (np.sqrt, np.square), "cbrt": (np.cbrt, _cube)}[spec["name"]]
        return TabularToSeriesAdaptor(FunctionTransformer(fwd, inverse_func=inv, check_inverse=False))
    if k == "imputer":
        from sktime.transformations.series.impute import Imputer

        return Imputer(method=spec.get("method", "mean"))
    raise ValueError(k)


def _cube(a):
    return np.asarray(a, dtype=float) ** 3


STATELESS_TRANSFORMERS = ("log", "func")


def stateless_chains(min_size=2, max_size=3):
    """Chains of element-wise, parameter-free invertible transformers valid on data >= 5:
    a pipeline of these on a forecaster that refits on update is itself equivalent to a
    fresh fit on all the data."""
    return st.sampled_from([
        [{"kind": "func", "name": "sqrt"}, {"kind": "log"}],
        [{"kind": "log"}, {"kind": "func", "name": "cbrt"}],
        [{"kind": "func", "name": "sqrt"}, {"kind": "func", "name": "cbrt"}],
        [{"kind": "log"}, {"kind": "func", "name": "sqrt"}],
        [{"kind": "func", "name": "sqrt"}, {"kind": "log"}, {"kind": "func", "name": "cbrt"}],
        [{"kind": "log"}],
    ]).filter(lambda c: min_size <= len(c) <= max_size)


def is_stateless_pipeline(spec):
    return spec["kind"] == "pipeline" and all(t["kind"] in STATELESS_TRANSFORMERS for t in spec["transformers"])


# transformers whose fitted state is set by fit alone (update leaves it as it is) and which map
# every time point on its own: a pipeline of these is value-checkable after updates as well
FIT_FROZEN_TRANSFORMERS = STATELESS_TRANSFORMERS + ("deseason", "scaler")


def is_fit_frozen_pipeline(spec):
    return spec["kind"] == "pipeline" and all(t["kind"] in FIT_FROZEN_TRANSFORMERS for t in spec["transformers"])


def _regressor(name, seed=0):
    from sklearn.linear_model import LinearRegression
    from sklearn.neighbors import KNeighborsRegressor
    from sklearn.tree import DecisionTreeRegressor

    if name == "linear":
        return LinearRegression()
    if name == "knn":
        return KNeighborsRegressor(n_neighbors=1)
    if name == "tree":
        return DecisionTreeRegressor(max_depth=3, random_state=seed)
    raise ValueError(name)


def via_set_params(est):
    """The same configuration reached differently: constructed with OTHER values of its primitive
    parameters, which are then set to the wanted ones through set_params (what a parameter
    search does on a clone).  Falls back to ``est`` when the constructor refuses the other values."""
    p = est.get_params(deep=False)
    alt = {}
    for k, v in p.items():
        if isinstance(v, bool):
            alt[k] = not v
        elif isinstance(v, (int, np.integer)):
            alt[k] = int(v) + 1
        elif isinstance(v, float):
            alt[k] = v * 0.5 + 0.25
    if not alt:
        return est
    try:
        other = type(est)(**dict(p, **alt))
        other.set_params(**{k: p[k] for k in alt})
    except Exception:  # noqa: BLE001
        return est
    return other


def build_forecaster(spec):
    if spec.get("_vsp"):
        return via_set_params(build_forecaster({k: v for k, v in spec.items() if k != "_vsp"}))
    k = spec["kind"]
    if k == "naive":
        from sktime.forecasting.naive import NaiveForecaster

        return NaiveForecaster(strategy=spec["strategy"], sp=spec.get("sp", 1), window_length=spec.get("wl"))
    if k == "trend":
        from sktime.forecasting.trend import PolynomialTrendForecaster

        return PolynomialTrendForecaster(degree=spec["degree"], with_intercept=spec.get("intercept", True))
    if k == "expsmooth":
        from sktime.forecasting.exp_smoothing import ExponentialSmoothing

        return ExponentialSmoothing(trend=spec.get("trend"), seasonal=spec.get("seasonal"), sp=spec.get("sp"))
    if k == "ets":
        from sktime.forecasting.ets import AutoETS

        return AutoETS(error=spec.get("error", "add"), trend=spec.get("trend"), auto=False)
    if k == "theta":
        from sktime.forecasting.theta import ThetaForecaster

        return ThetaForecaster(sp=spec.get("sp", 1), deseasonalize=spec.get("deseasonalize", False))
    if k == "reduce":
        from sktime.forecasting.compose import make_reduction

        reg = doubles.ScalarOut(_regressor(spec["reg"], spec.get("seed", 0)))
        if spec.get("scitype", "tabular") == "ts":
            from sklearn.pipeline import make_pipeline

            from sktime.transformations.panel.reduce import Tabularizer

            reg = doubles.ScalarOut(make_pipeline(Tabularizer(), _regressor(spec["reg"], spec.get("seed", 0))))
            return make_reduction(reg, strategy=spec["strategy"], window_length=spec["wl"], scitype="time-series-regressor")
        return make_reduction(reg, strategy=spec["strategy"], window_length=spec["wl"])
    if k == "ensemble":
        from sktime.forecasting.compose import EnsembleForecaster

        return EnsembleForecaster(
            [("m%d" % i, build_forecaster(m)) for i, m in enumerate(spec["members"])], aggfunc=spec.get("aggfunc", "mean"),
            n_jobs=spec.get("n_jobs"))
    if k == "online_ensemble":
        from sktime.forecasting.online_learning import OnlineEnsembleForecaster

        alg = None
        if spec.get("algorithm"):
            from sklearn.metrics import mean_squared_error

            from sktime.forecasting.online_learning import NNLSEnsemble, NormalHedgeEnsemble

            alg = (NNLSEnsemble if spec["algorithm"] == "nnls" else NormalHedgeEnsemble)(n_estimators=len(spec["members"]), loss_func=mean_squared_error)
        return OnlineEnsembleForecaster([("m%d" % i, build_forecaster(m)) for i, m in enumerate(spec["members"])], ensemble_algorithm=alg)
    if k == "pipeline":
        from sktime.forecasting.compose import TransformedTargetForecaster

        # step names are arbitrary labels: in about half of the pipelines they are NOT in
        # alphabetical order of their position (the order of the steps is the order of the list)
        desc = sum(len(t["kind"]) for t in spec["transformers"]) % 2 == 0
        steps = [(("t%s" % "zyxwvutsrq"[i]) if desc else ("t%d" % i), build_transformer(t)) for i, t in enumerate(spec["transformers"])]
        steps.append(("forecaster", build_forecaster(spec["forecaster"])))
        return TransformedTargetForecaster(steps)
    if k == "stack":
        from sklearn.linear_model import LinearRegression

        from sktime.forecasting.compose import StackingForecaster

        return StackingForecaster(
            [("m%d" % i, build_forecaster(m)) for i, m in enumerate(spec["members"])],
            final_regressor=_regressor(spec.get("reg", "linear")))
    if k == "multiplex":
        from sktime.forecasting.compose import MultiplexForecaster

        # names of which each is contained in the next ("f", "f_x", "f_x_x"): a member is selected
        # by its exact name
        members = [("f" + "_x" * i, build_forecaster(m)) for i, m in enumerate(spec["members"])]
        return MultiplexForecaster(members, selected_forecaster="f" + "_x" * (spec["selected"] % len(members)))
    if k == "gridsearch":
        from sktime.forecasting.model_selection import ForecastingGridSearchCV, SlidingWindowSplitter

        cv = SlidingWindowSplitter(fh=spec.get("cv_fh", 1), window_length=spec.get("cv_wl", 6), step_length=spec.get("cv_step", 2))
        scoring = None
        if spec.get("scoring"):
            import sktime.performance_metrics.forecasting as _m

            scoring = {"mae": _m.MeanAbsoluteError, "mse": _m.MeanSquaredError}[spec["scoring"]]()
        if spec.get("search") == "random":
            from sktime.forecasting.model_selection import ForecastingRandomizedSearchCV

            return ForecastingRandomizedSearchCV(build_forecaster(spec["base"]), cv=cv, param_distributions=spec["grid"], n_iter=2,
                                                 random_state=3, scoring=scoring, refit=True)
        return ForecastingGridSearchCV(build_forecaster(spec["base"]), cv=cv, param_grid=spec["grid"], scoring=scoring, refit=True)
    if k == "recording":
        return doubles.recording_forecaster_class()(tag=spec.get("tag", 0))
    raise ValueError(k)


# ----------------------------------------------------------------------------- properties of specs
def needs_fh_in_fit(spec):
    k = spec["kind"]
    if k == "reduce":
        return spec["strategy"] in ("direct", "multioutput", "dirrec")
    if k == "stack":
        return True
    if k in ("ensemble", "online_ensemble", "stack"):
        return any(needs_fh_in_fit(m) for m in spec["members"])
    if k == "multiplex":
        return needs_fh_in_fit(spec["members"][spec["selected"] % len(spec["members"])])
    if k == "pipeline":
        return needs_fh_in_fit(spec["forecaster"])
    if k == "gridsearch":
        return needs_fh_in_fit(spec["base"])
    return False


def min_length(spec, hmax):
    """A series length that certainly suffices for fit (with horizon max hmax)."""
    k = spec["kind"]
    if k == "naive":
        return max(3, (spec.get("wl") or 0), spec.get("sp", 1)) + 1
    if k == "trend":
        return spec["degree"] + 3
    if k in ("expsmooth", "ets"):
        return max(12, 4 * (spec.get("sp") or 1))
    if k == "theta":
        return max(12, 4 * spec.get("sp", 1))
    if k == "reduce":
        return spec["wl"] + hmax + 4
    if k in ("ensemble", "online_ensemble", "multiplex"):
        return max(min_length(m, hmax) for m in spec["members"])
    if k == "stack":
        return max(min_length(m, hmax) for m in spec["members"]) + hmax + 2
    if k == "pipeline":
        base = min_length(spec["forecaster"], hmax)
        for t in spec["transformers"]:
            if t["kind"] in ("deseason", "cond_deseason"):
                base = max(base, 2 * t["sp"] + 2)
            if t["kind"] == "passthrough" and t["inner"]["kind"] in ("deseason",):
                base = max(base, 2 * t["inner"]["sp"] + 2)
        return base
    if k == "gridsearch":
        return min_length(spec["base"], hmax) + spec.get("cv_wl", 6) + 6
    if k == "recording":
        return 3
    return 12


def is_composite(spec):
    return spec["kind"] in ("ensemble", "online_ensemble", "pipeline", "stack", "multiplex", "gridsearch")


def refits_on_update(spec):
    """True when update(update_params=True) is documented/implemented as a refit on all data seen."""
    k = spec["kind"]
    if k in ("naive", "trend", "expsmooth", "ets", "reduce"):
        return True
    if k == "theta":
        return False
    if k in ("ensemble", "multiplex"):
        return all(refits_on_update(m) for m in spec["members"])
    if is_fit_frozen_pipeline(spec):
        return refits_on_update(spec["forecaster"])
    return False


def describe(spec):
    k = spec["kind"]
    if k in ("ensemble", "online_ensemble", "stack", "multiplex"):
        return "%s(%s)" % (k, ",".join(describe(m) for m in spec["members"]))
    if k == "pipeline":
        return "pipeline(%s->%s)" % ("+".join(t["kind"] for t in spec["transformers"]), describe(spec["forecaster"]))
    if k == "gridsearch":
        return "%s%s(%s)" % ("randomsearch" if spec.get("search") == "random" else "gridsearch",
                             "[%s]" % spec["scoring"] if spec.get("scoring") else "", describe(spec["base"]))
    if k == "reduce":
        return "reduce-%s" % spec["strategy"]
    if k == "naive":
        return "naive-%s" % spec["strategy"]
    return k


# ----------------------------------------------------------------------------- strategies
def naive_specs():
    return st.one_of(
        st.builds(lambda: {"kind": "naive", "strategy": "last", "sp": 1}),
        st.builds(lambda sp: {"kind": "naive", "strategy": "last", "sp": sp}, st.integers(2, 6)),
        st.builds(lambda wl: {"kind": "naive", "strategy": "mean", "sp": 1, "wl": wl}, st.one_of(st.none(), st.integers(2, 8))),
        st.builds(lambda sp, m: {"kind": "naive", "strategy": "mean", "sp": sp, "wl": None if m == 0 else sp * 2 + m - 1},
                  st.integers(2, 4), st.integers(0, 3)),
        st.builds(lambda wl: {"kind": "naive", "strategy": "drift", "sp": 1, "wl": wl}, st.one_of(st.none(), st.integers(2, 8))),
    )


def trend_specs():
    return st.builds(lambda d, i: {"kind": "trend", "degree": d, "intercept": i if d > 0 else True},
                     st.integers(0, 3), st.booleans())


def statsmodels_specs():
    return st.one_of(
        st.builds(lambda t: {"kind": "expsmooth", "trend": t}, st.sampled_from([None, "add"])),
        st.builds(lambda s, sp: {"kind": "expsmooth", "trend": "add", "seasonal": s, "sp": sp},
                  st.sampled_from(["add", "mul"]), st.integers(2, 4)),
        st.builds(lambda t: {"kind": "ets", "trend": t}, st.sampled_from([None, "add"])),
        st.builds(lambda: {"kind": "theta", "sp": 1, "deseasonalize": False}),
    )


def reduce_specs(strategies=("direct", "recursive", "multioutput", "dirrec")):
    return st.builds(
        lambda s, wl, reg, sci: {"kind": "reduce", "strategy": s, "wl": wl, "reg": reg, "scitype": sci},
        st.sampled_from(strategies), st.integers(1, 5), st.sampled_from(["linear", "knn", "tree"]),
        st.sampled_from(["tabular", "tabular", "ts"]),
    )


def transformer_specs(allow_boxcox=True):
    opts = [
        st.builds(lambda sp, m: {"kind": "deseason", "sp": sp, "model": m}, st.integers(1, 5),
                  st.sampled_from(["additive", "multiplicative"])),
        st.builds(lambda d: {"kind": "detrend", "degree": d}, st.integers(0, 2)),
        st.just({"kind": "detrend", "degree": 1, "default": True}),
        st.just({"kind": "log"}),
        st.builds(lambda w: {"kind": "scaler", "which": w}, st.sampled_from(["standard", "minmax"])),
        st.builds(lambda nm: {"kind": "func", "name": nm}, st.sampled_from(["sqrt", "cbrt"])),
    ]
    if allow_boxcox:
        # bounded lambda: unbounded Box-Cox on near-constant data overflows (scipy behaviour)
        opts.append(st.builds(lambda m: {"kind": "boxcox", "method": m, "bounds": [-2.0, 2.0]}, st.sampled_from(["mle", "pearsonr"])))
    return st.one_of(*opts)


def _rank(t):
    if t["kind"] in ("deseason", "cond_deseason") and t["model"] == "multiplicative":
        return 0  # needs (and keeps) positive data
    if t["kind"] == "func" and t["name"] == "sqrt":
        return 0
    if t["kind"] in ("log", "boxcox"):
        return 1  # needs positive data, output may be negative
    return 2


def transformer_chains(max_size=2, allow_boxcox=True):
    """Chains that are valid on positive data: positive-only steps first, at most one log/boxcox."""

    def norm(ts):
        ts = sorted(ts, key=_rank)
        out, seen1 = [], False
        for t in ts:
            if _rank(t) == 1:
                if seen1:
                    continue
                seen1 = True
            out.append(t)
        return out

    return st.lists(transformer_specs(allow_boxcox), min_size=1, max_size=max_size).map(norm)


def sign_safe(spec):
    """Return a copy of a forecaster spec that accepts non-positive data (used below
    transformers whose output may be non-positive)."""
    spec = dict(spec)
    k = spec["kind"]
    if k == "expsmooth" and spec.get("seasonal") == "mul":
        spec["seasonal"] = "add"
    if k in ("ensemble", "online_ensemble", "stack", "multiplex"):
        spec["members"] = [sign_safe(m) for m in spec["members"]]
    if k == "pipeline":
        spec["transformers"] = [t for t in spec["transformers"] if _rank(t) == 2] or [{"kind": "detrend", "degree": 1}]
        spec["forecaster"] = sign_safe(spec["forecaster"])
    if k == "gridsearch":
        spec["base"] = sign_safe(spec["base"])
    return spec


def _pipeline(ts, f):
    if any(_rank(t) >= 1 for t in ts):
        f = sign_safe(f)
    return {"kind": "pipeline", "transformers": ts, "forecaster": f}


# one representative of every forecaster kind (for the exhaustive "every kind" sub-checks)
_N = {"kind": "naive", "strategy": "last", "sp": 1}
_T = {"kind": "trend", "degree": 1, "with_intercept": True}
FORECASTER_ENUM = [
    _N, {"kind": "naive", "strategy": "mean", "sp": 1, "wl": 3}, {"kind": "naive", "strategy": "mean", "sp": 2, "wl": None},
    {"kind": "naive", "strategy": "drift", "sp": 1, "wl": None}, {"kind": "naive", "strategy": "last", "sp": 3}, _T,
    {"kind": "expsmooth", "trend": None}, {"kind": "expsmooth", "trend": "add"}, {"kind": "ets"}, {"kind": "theta", "sp": 1, "deseasonalize": False},
] + [{"kind": "reduce", "strategy": s_, "wl": 3, "reg": "linear", "scitype": sc_}
     for s_ in ("direct", "recursive", "multioutput", "dirrec") for sc_ in ("tabular", "ts")] + [
    {"kind": "ensemble", "members": [_N, _T], "aggfunc": "mean"}, {"kind": "online_ensemble", "members": [_N, _T]},
    {"kind": "pipeline", "transformers": [{"kind": "deseason", "sp": 2, "model": "additive"}, {"kind": "detrend", "degree": 1}], "forecaster": _N},
    {"kind": "pipeline", "transformers": [{"kind": "log"}], "forecaster": _T},
    {"kind": "multiplex", "members": [_N, _T], "selected": 1}, {"kind": "stack", "members": [_N, _T], "reg": "linear"},
    {"kind": "gridsearch", "base": _N, "grid": {"strategy": ["last", "mean", "drift"]}, "cv_wl": 6, "cv_step": 2, "cv_fh": 1},
    {"kind": "gridsearch", "base": _N, "grid": {"strategy": ["last", "mean", "drift"]}, "cv_wl": 6, "cv_step": 2, "cv_fh": 1, "scoring": "mae"},
    {"kind": "gridsearch", "base": _N, "grid": {"strategy": ["last", "mean", "drift"]}, "cv_wl": 6, "cv_step": 2, "cv_fh": 1, "search": "random"},
    {"kind": "gridsearch", "base": _N, "grid": {"strategy": ["last", "mean", "drift"]}, "cv_wl": 6, "cv_step": 2, "cv_fh": 1, "search": "random",
     "scoring": "mse"},
]


def plain_specs(cheap=False):
    if cheap:
        return st.one_of(naive_specs(), trend_specs(), reduce_specs(("recursive",)))
    return st.one_of(naive_specs(), naive_specs(), trend_specs(), statsmodels_specs(), reduce_specs())


def composite_specs(inner, allow_grid=True):
    opts = [
        st.builds(lambda ms, a: {"kind": "ensemble", "members": ms, "aggfunc": a},
                  st.lists(inner, min_size=1, max_size=3), st.sampled_from(["mean", "median", "min", "max"])),
        st.builds(_pipeline, transformer_chains(2, allow_boxcox=False), inner),
        st.builds(lambda ms, s: {"kind": "multiplex", "members": ms, "selected": s},
                  st.lists(inner, min_size=1, max_size=3), st.integers(0, 5)),
        st.builds(lambda ms: {"kind": "stack", "members": ms, "reg": "linear"}, st.lists(inner, min_size=1, max_size=3)),
        st.builds(lambda ms: {"kind": "online_ensemble", "members": ms}, st.lists(inner, min_size=1, max_size=3)),
    ]
    if allow_grid:
        opts.append(st.builds(
            lambda sc, se: {"kind": "gridsearch", "base": {"kind": "naive", "strategy": "last", "sp": 1},
                            "grid": {"strategy": ["last", "mean", "drift"]}, "cv_wl": 6, "cv_step": 2, "cv_fh": 1,
                            **({"scoring": sc} if sc else {}), **({"search": se} if se else {})},
            st.sampled_from([None, None, "mae", "mse"]), st.sampled_from([None, None, "random"])))
    return st.one_of(*opts)


def forecaster_specs(max_depth=2, cheap=False):
    # one in four specs is built via set_params on an instance constructed with other values
    return _forecaster_specs(max_depth, cheap).flatmap(
        lambda sp: st.sampled_from([False, False, False, True]).map(lambda f: dict(sp, _vsp=True) if f else sp))


def _forecaster_specs(max_depth=2, cheap=False):
    base = plain_specs(cheap=cheap)
    if max_depth <= 0:
        return base
    lvl1 = st.one_of(base, composite_specs(base))
    if max_depth == 1:
        return lvl1
    return st.one_of(base, composite_specs(base), composite_specs(lvl1, allow_grid=False))
