"""Shared Hypothesis strategies.  All strategies produce JSON-serialisable primitives;
builders turn them into pandas / sktime objects inside the oracles."""
import numpy as np
import pandas as pd
from hypothesis import strategies as st


# ----------------------------------------------------------------------------- horizons
def fh_steps(max_step=12, max_size=5, min_step=1):
    """Non-empty strictly increasing list of steps in min_step..max_step."""
    return st.lists(
        st.integers(min_step, max_step), min_size=1, max_size=max_size, unique=True
    ).map(sorted)


FH_KINDS = ("int", "list", "array", "index", "range", "fh")


def build_fh(steps, kind, is_relative=True):
    """Build the horizon argument in the requested container."""
    from sktime.forecasting.base import ForecastingHorizon

    steps = list(steps)
    if kind.endswith("_shuffled"):
        # the same steps in a non-increasing order (a horizon is a set of steps)
        steps = steps[1:][::-1] + steps[:1] if len(steps) > 2 else steps[::-1]
        kind = kind[: -len("_shuffled")]
    if kind == "fh_index":
        return ForecastingHorizon(pd.Index(np.array(steps, dtype="int64")), is_relative=is_relative)
    if kind == "int" and len(steps) == 1:
        return int(steps[0])
    if kind == "list" or kind == "int":
        return list(steps)
    if kind == "array":
        return np.array(steps, dtype="int64")
    if kind == "array32":
        return np.array(steps, dtype="int32")
    if kind == "index":
        return pd.Index(np.array(steps, dtype="int64"))
    if kind == "range":
        if len(steps) >= 2:
            d = steps[1] - steps[0]
            if d > 0 and all(b - a == d for a, b in zip(steps, steps[1:])):
                return pd.RangeIndex(steps[0], steps[-1] + 1, d)
        if len(steps) == 1:
            return pd.RangeIndex(steps[0], steps[0] + 1)
        return pd.Index(np.array(steps, dtype="int64"))
    if kind == "fh":
        return ForecastingHorizon(list(steps), is_relative=is_relative)
    raise ValueError(kind)


# ----------------------------------------------------------------------------- series
def int_index(start, n, kind):
    if kind == "range":
        return pd.RangeIndex(start, start + n)
    return pd.Index(np.arange(start, start + n, dtype="int64"))


def build_series(values, start=0, index_kind="range", name=None):
    values = np.asarray(values, dtype="float64")
    return pd.Series(values, index=int_index(start, len(values), index_kind), name=name)


def series_values(min_size, max_size, lo=1.0, hi=1000.0):
    """Finite positive floats with limited magnitude (see DESIGN 1.5)."""
    return st.lists(
        st.floats(lo, hi, allow_nan=False, allow_infinity=False, width=64).map(
            lambda v: round(v, 6)
        ),
        min_size=min_size,
        max_size=max_size,
    )


def distinct_values(n, seed):
    """n pairwise distinct floats determined by an integer seed (no RNG state):
    a permutation-like sequence so that each value identifies its position."""
    # multiplicative sequence modulo a prime, offset so that values are non-integers
    p = 10007
    a = 1 + (seed % (p - 2))
    vals = []
    x = (seed * 7919 + 13) % p or 1
    seen = set()
    for i in range(n):
        while x in seen:
            x = (x + 1) % p or 1
        seen.add(x)
        vals.append(x / 8.0 + 0.0625)
        x = (x * a + 101) % p or 1
    return vals


index_start = st.one_of(st.just(0), st.integers(-5, 1000))
index_kind = st.sampled_from(["range", "int64"])
